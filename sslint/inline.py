"""Inlining of functions that are new with respect to the recorded anchors.

The rules are written against named functions (anchors/names.json lists every
function that existed when the rules were confirmed).  When a block of such a
function is moved verbatim into a new helper ("extract function"), the rule
would lose sight of it.  Before the program model is built, every call from a
recorded function (or from another new function) to a new function defined in
the same unit is therefore replaced by the callee's body, in the syntax tree
and in the control-flow graph:

  * the callee's nodes are copied; a parameter that the callee never writes
    and whose argument is a side-effect-free expression is replaced by a copy of
    the argument at every use (`*p` / `p->f` with argument `&x` become `x` /
    `x.f`), any other parameter becomes an assignment `param = argument`;
  * `return e` becomes an assignment to a result variable `<callee>$ret`
    followed by a jump to the continuation (a callee with a single, final
    `return e` simply leaves `e` in the place of the call);
  * in the CFG the block containing the call is split, the callee's blocks are
    spliced in, and a `return <constant>` whose value decides the branch the
    call is tested in (`if (helper(...) < 0) goto fail;`) is linked to that
    branch directly.

A call is only replaced where it is evaluated exactly once whenever its
statement starts (not in a loop condition / step, not under && || ?:); other
calls are left alone and the callee then stays a function of its own.  A new
function whose every call was replaced disappears from the function list (it
is kept in the unit's `_inlined` list for the coverage cross-check).
"""
import copy

NORETURN = ("__assert_fail", "abort", "exit", "_exit")
EXPR_STMT_PARENTS = ("Compound", "If", "For", "While", "Do", "Label", "Case", "Default", "Switch")


def _parents(nodes):
    p = [None] * len(nodes)
    for i, nd in enumerate(nodes):
        for c in nd["ch"]:
            p[c] = i
    return p


def _walk(nodes, i):
    st = [i]
    while st:
        x = st.pop()
        yield x
        st.extend(reversed(nodes[x]["ch"]))


def _strip(nodes, i):
    while nodes[i]["k"] in ("Paren", "ICast", "Cast", "ConstantExpr"):
        i = nodes[i]["ch"][0]
    return i


def _pure(nodes, i):
    for j in _walk(nodes, i):
        k = nodes[j]["k"]
        if k in ("Call", "Assign", "CompoundAssign", "VAArgExpr"):
            return False
        if k == "Un" and nodes[j].get("op") in ("post++", "post--", "pre++", "pre--"):
            return False
    return True


def _written_decls(nodes, root):
    """declarations written or address-taken in the subtree"""
    out = set()
    for j in _walk(nodes, root):
        nd = nodes[j]
        t = None
        if nd["k"] in ("Assign", "CompoundAssign"):
            t = _strip(nodes, nd["ch"][0])
        elif nd["k"] == "Un" and nd.get("op") in ("post++", "post--", "pre++", "pre--", "&"):
            t = _strip(nodes, nd["ch"][0])
        if t is not None and nodes[t]["k"] == "DeclRef":
            out.add(nodes[t].get("decl"))
    return out


def _constval(nodes, i, env):
    nd = nodes[i]
    k = nd["k"]
    if i in env:
        return env[i]
    if "cv" in nd and isinstance(nd["cv"], int):
        return nd["cv"]
    if k == "Int":
        return nd.get("v")
    if k in ("Paren", "ICast", "Cast", "ConstantExpr"):
        return _constval(nodes, nd["ch"][0], env)
    if k == "Un" and nd.get("op") in ("-", "!", "+", "~"):
        v = _constval(nodes, nd["ch"][0], env)
        if v is None:
            return None
        return {"-": -v, "!": int(not v), "+": v, "~": ~v}[nd["op"]]
    if k == "Bin" and nd.get("op") in ("<", ">", "<=", ">=", "==", "!=", "+", "-"):
        a = _constval(nodes, nd["ch"][0], env)
        b = _constval(nodes, nd["ch"][1], env)
        if a is None or b is None:
            return None
        return int({"<": a < b, ">": a > b, "<=": a <= b, ">=": a >= b, "==": a == b, "!=": a != b, "+": a + b, "-": a - b}[nd["op"]])
    return None


def _site_ok(nodes, par, c):
    """the statement S the call belongs to, if the call is evaluated exactly once whenever S starts"""
    child = c
    p = par[c]
    while p is not None:
        pk = nodes[p]["k"]
        ch = nodes[p]["ch"]
        if pk in EXPR_STMT_PARENTS or pk in ("Return", "Decl"):
            if pk in ("Return", "Decl"):
                child = p
                p = par[p]
                continue
            if pk == "Compound" or pk in ("Label", "Case", "Default"):
                return child, p
            if pk == "If":
                if child == ch[0]:
                    child = p
                    p = par[p]
                    continue        # in the condition: belongs to the If statement
                return child, p     # then / else statement
            if pk == "Switch":
                if child == ch[0]:
                    child = p
                    p = par[p]
                    continue
                return child, p
            if pk == "For":
                if child == ch[0]:
                    child = p
                    p = par[p]
                    continue        # init
                if child == ch[-1]:
                    return child, p  # body
                return None
            if pk in ("While", "Do"):
                body = ch[1] if pk == "While" else ch[0]
                if child == body:
                    return child, p
                return None
        if pk == "Bin" and nodes[p].get("op") in ("&&", "||") and child != ch[0]:
            return None
        if pk == "Cond" and child != ch[0]:
            return None
        if pk in ("Sizeof",):
            return None
        child = p
        p = par[p]
    return None


class _Inl:
    def __init__(self, fd, hd, serial):
        self.fd = fd
        self.hd = hd
        self.serial = serial

    def copy_sub(self, nodes, root, out):
        """deep copy of the subtree `root` of `nodes` appended to `out`; returns new root"""
        m = {}
        order = list(_walk(nodes, root))
        for j in order:
            m[j] = len(out)
            out.append(None)
        for j in order:
            nd = dict(nodes[j])
            nd["ch"] = [m[c] for c in nodes[j]["ch"]]
            out[m[j]] = nd
        return m[root]


def inline_call(fd, c, hd, serial):
    """replace call node `c` of function dict fd by the body of hd; returns True if done"""
    F = fd["nodes"]
    par = _parents(F)
    site = _site_ok(F, par, c)
    if site is None or hd.get("cfg") is None or fd.get("cfg") is None:
        return False
    S, SP = site
    H = hd["nodes"]
    call = F[c]
    args = call["ch"][1:]
    if len(args) != len(hd["params"]):
        return False
    # locate the call in the caller's CFG
    blk = None
    for b in fd["cfg"]["blocks"]:
        if c in b["elems"]:
            blk = b
            break
    if blk is None:
        return False
    tag = "%s#%d" % (hd["name"], serial)
    off = len(F)
    # a callee local keeps its name: a verbatim extraction moves a variable, and where the caller keeps a
    # variable of the same name for the rest of its work the two play the same role
    # ---- copy the callee's nodes
    for j, nd in enumerate(H):
        n2 = dict(nd)
        n2["ch"] = [x + off for x in nd["ch"]]
        n2["inl"] = tag
        if n2["k"] in ("Var", "DeclRef") and n2.get("ref") != "func" and "decl" in n2 and n2.get("ref") != "global":
            n2["decl"] = "%s~%s" % (n2["decl"], tag)
            if n2.get("ref") == "param":
                n2["ref"] = "local"
        F.append(n2)
    hroot = hd["root"] + off
    cpar = {}
    for j in range(off, off + len(H)):
        for x in F[j]["ch"]:
            cpar[x] = j
    written = _written_decls(H, hd["root"])
    hstores = set()
    # ---- parameters
    bindings = []
    helper = _Inl(fd, hd, serial)
    for (prm, a) in zip(hd["params"], args):
        pdecl = prm[2]
        ndecl = "%s~%s" % (pdecl, tag)
        uses = [j for j in range(off, off + len(H)) if F[j]["k"] == "DeclRef" and F[j].get("decl") == ndecl]
        if not uses:
            if not _pure(F, a):
                bindings.append(("eval", a))
            continue
        if pdecl not in written and _pure(F, a):
            sa = _strip(F, a)
            for u in uses:
                pu = None
                # `*p` / `p->f` with argument `&x`
                if F[sa]["k"] == "Un" and F[sa].get("op") == "&":
                    # find the nearest non-transparent ancestor of u inside the copy
                    q = u
                    while q in cpar:
                        q2 = cpar[q]
                        if F[q2]["k"] in ("Paren", "ICast"):
                            q = q2
                            continue
                        pu = q2
                        break
                if pu is not None and F[pu]["k"] == "Un" and F[pu].get("op") == "*":
                    x = helper.copy_sub(F, F[sa]["ch"][0], F)
                    keep = {k_: v for k_, v in F[pu].items() if k_ in ("l", "inl")}
                    F[pu] = dict(F[x])
                    F[pu].update(keep)
                elif pu is not None and F[pu]["k"] == "Member" and F[pu].get("arrow"):
                    x = helper.copy_sub(F, F[sa]["ch"][0], F)
                    F[pu]["arrow"] = False
                    F[pu]["ch"] = [x]
                else:
                    x = helper.copy_sub(F, a, F)
                    keep = {k_: v for k_, v in F[u].items() if k_ in ("l", "inl")}
                    F[u] = {"k": "Paren", "t": F[x].get("t", ""), "ch": [x]}
                    if "ct" in F[x]:
                        F[u]["ct"] = F[x]["ct"]
                    F[u].update(keep)
        else:
            bindings.append(("bind", prm, ndecl, a))
    # ---- result
    rets = [j for j in range(off, off + len(H)) if F[j]["k"] == "Return"]
    valued = [r for r in rets if F[r]["ch"] and F[F[r]["ch"][0]]["k"] != "Absent"]
    used = not (par[c] is not None and F[par[c]]["k"] in EXPR_STMT_PARENTS and not (F[par[c]]["k"] in ("If", "Switch", "For") and F[par[c]]["ch"][0] == c))
    rtype = call.get("t", hd.get("ret", "int"))
    rdecl = "%s$ret~%s" % (hd["name"], tag)
    rname = "%s$ret" % hd["name"]
    rootch = F[hroot]["ch"] if F[hroot]["k"] == "Compound" else []
    single_tail = used and len(valued) == 1 and len(rets) == 1 and rootch and rootch[-1] == valued[0]
    new_elems_for = {}      # node id (Return) -> replacement element list
    decl_nodes = []
    # `if (c) return A; return B;` without side effects is the conditional expression `c ? A : B`
    pure_cond = None
    if used and len(rets) == 2 and len(valued) == 2 and len(rootch) == 2 and F[rootch[0]]["k"] == "If" and rootch[1] in valued and not bindings:
        cnd, th, el = F[rootch[0]]["ch"]
        th_s = th
        if F[th]["k"] == "Compound" and len(F[th]["ch"]) == 1:
            th_s = F[th]["ch"][0]
        if F[el]["k"] == "Absent" and th_s in valued and _pure(F, cnd) and _pure(F, F[th_s]["ch"][0]) and _pure(F, F[rootch[1]]["ch"][0]):
            pure_cond = (cnd, F[th_s]["ch"][0], F[rootch[1]]["ch"][0], th_s, rootch[1])
    if pure_cond is not None:
        cnd, ea, eb, ra, rb = pure_cond
        keep = {k_: v for k_, v in call.items() if k_ in ("l", "t", "ct")}
        F[c] = {"k": "Cond", "ch": [cnd, ea, eb], "inl": tag}
        F[c].update(keep)
        new_elems_for[ra] = []
        new_elems_for[rb] = []
        retval_const = {}
    elif single_tail:
        r = valued[0]
        e = F[r]["ch"][0]
        F[hroot]["ch"] = rootch[:-1]
        keep = {k_: v for k_, v in call.items() if k_ in ("l", "t", "ct")}
        F[c] = {"k": "Paren", "ch": [e], "inl": tag}
        F[c].update(keep)
        new_elems_for[r] = []
        retval_const = {}
    else:
        retval_const = {}
        for r in rets:
            if r in valued:
                e = F[r]["ch"][0]
                cv = _constval(F, e, {})
                if used:
                    lhs = len(F)
                    F.append({"k": "DeclRef", "ref": "local", "name": rname, "decl": rdecl, "t": rtype, "ch": [], "l": F[r].get("l"), "inl": tag})
                    asg = len(F)
                    F.append({"k": "Assign", "op": "=", "t": rtype, "ch": [lhs, e], "l": F[r].get("l"), "inl": tag})
                    F[r] = {"k": "InlReturn", "ch": [asg], "l": F[r].get("l"), "inl": tag}
                    new_elems_for[r] = [lhs, asg]
                    if cv is not None:
                        retval_const[r] = cv
                else:
                    F[r] = {"k": "InlReturn", "ch": [e], "l": F[r].get("l"), "inl": tag}
                    new_elems_for[r] = []
            else:
                F[r] = {"k": "InlReturn", "ch": [], "l": F[r].get("l"), "inl": tag}
                new_elems_for[r] = []
        if used:
            v = len(F)
            F.append({"k": "Var", "name": rname, "decl": rdecl, "t": rtype, "ch": [], "l": call.get("l"), "inl": tag})
            d = len(F)
            F.append({"k": "Decl", "ch": [v], "l": call.get("l"), "inl": tag})
            decl_nodes.append(d)
            keep = {k_: v_ for k_, v_ in call.items() if k_ in ("l", "t", "ct")}
            F[c] = {"k": "DeclRef", "ref": "local", "name": rname, "decl": rdecl, "ch": [], "inl": tag}
            F[c].update(keep)
        else:
            keep = {k_: v_ for k_, v_ in call.items() if k_ in ("l",)}
            F[c] = {"k": "Compound", "ch": [], "inl": tag}
            F[c].update(keep)
    # ---- bindings as statements
    bind_nodes = []
    bind_elems = []
    for b in bindings:
        if b[0] == "eval":
            bind_nodes.append(b[1])
            continue
        _, prm, ndecl, a = b
        lhs = len(F)
        F.append({"k": "DeclRef", "ref": "local", "name": prm[0], "decl": ndecl, "t": prm[1], "ct": prm[3], "ch": [], "l": call.get("l"), "inl": tag})
        asg = len(F)
        F.append({"k": "Assign", "op": "=", "t": prm[1], "ct": prm[3], "ch": [lhs, a], "l": call.get("l"), "inl": tag})
        bind_nodes.append(asg)
        bind_elems += [lhs, asg]
    # ---- wrap the statement
    if pure_cond is None:
        W = len(F)
        F.append({"k": "Compound", "ch": decl_nodes + bind_nodes + [hroot, S], "l": F[S].get("l"), "el": F[S].get("el"), "inl": tag, "inlwrap": True})
        F[SP]["ch"] = [W if x == S else x for x in F[SP]["ch"]]
    # ---- CFG
    cfg = fd["cfg"]
    hcfg = hd["cfg"]
    nid = max(b["id"] for b in cfg["blocks"]) + 1
    idx = blk["elems"].index(c)
    b2 = {"id": nid, "elems": ([c] if F[c]["k"] != "Compound" else []) + blk["elems"][idx + 1:], "succs": list(blk["succs"])}
    for k_ in ("term", "termk", "cond"):
        if k_ in blk:
            b2[k_] = blk.pop(k_)
    nid += 1
    bmap = {}
    for hb in hcfg["blocks"]:
        if hb["id"] == hcfg["exit"]:
            bmap[hb["id"]] = b2["id"]
        else:
            bmap[hb["id"]] = nid
            nid += 1
    blk["elems"] = blk["elems"][:idx] + decl_nodes + bind_elems
    blk["succs"] = [bmap[hcfg["entry"]]]
    # branch decided by a constant return value
    thread = {}
    if retval_const and b2.get("cond") is not None and len(b2["succs"]) == 2 and b2.get("termk") != "SwitchStmt":
        cond = b2["cond"]
        cj = _strip(F, cond)
        inside = set(_walk(F, cond))
        if not (F[cj]["k"] == "Bin" and F[cj].get("op") in ("&&", "||")) and all(e in inside for e in b2["elems"]):
            for r, v in retval_const.items():
                tv = _constval(F, cond, {c: v})
                if tv is not None:
                    thread[r] = b2["succs"][0] if tv else b2["succs"][1]
    # a predicate `return a || b;` (or &&) whose call is the whole branch condition (possibly negated): the
    # short-circuit edge decides the branch and is linked to it directly, as in `if (a || b)`
    short = {}
    if single_tail and b2.get("cond") is not None and len(b2["succs"]) == 2 and b2.get("termk") != "SwitchStmt":
        cj = b2["cond"]
        neg = False
        while F[cj]["k"] in ("Paren", "ICast", "Cast") or (F[cj]["k"] == "Un" and F[cj].get("op") == "!"):
            if cj == c:
                break
            if F[cj]["k"] == "Un":
                neg = not neg
            cj = F[cj]["ch"][0]
        ej = _strip(F, F[c]["ch"][0]) if cj == c else None
        if ej is not None and F[ej]["k"] == "Bin" and F[ej].get("op") in ("&&", "||"):
            jb = [hb for hb in hcfg["blocks"] if (valued[0] - off) in hb["elems"]]
            if len(jb) == 1:
                J = jb[0]["id"]
                for hb in hcfg["blocks"]:
                    tn = hb.get("term")
                    if tn is None or tn < 0 or len(hb["succs"]) != 2:
                        continue
                    tj = tn + off
                    if F[tj]["k"] == "Bin" and F[tj].get("op") in ("&&", "||") and tj in set(_walk(F, ej)):
                        # value of the whole expression on the short-circuit edge
                        if F[tj]["op"] == "||" and hb["succs"][0] == J and tj == ej:
                            short[hb["id"]] = (0, b2["succs"][1] if neg else b2["succs"][0])
                        elif F[tj]["op"] == "&&" and hb["succs"][1] == J and tj == ej:
                            short[hb["id"]] = (1, b2["succs"][0] if neg else b2["succs"][1])
    for hb in hcfg["blocks"]:
        if hb["id"] == hcfg["exit"]:
            continue
        nb = {"id": bmap[hb["id"]], "elems": [], "succs": [bmap[s] if s is not None else None for s in hb["succs"]]}
        if hb["id"] in short:
            k_, tgt_ = short[hb["id"]]
            nb["succs"][k_] = tgt_
        if len(hb["succs"]) == 1 and hb["succs"][0] == hcfg["exit"] and any(e >= 0 and H[e]["k"] == "Call" and H[e].get("callee") in NORETURN for e in hb["elems"]):
            nb["succs"] = []
        target = None
        moved = set()
        if single_tail and (valued[0] - off) in hb["elems"]:
            # the value of a final `return e` is evaluated where the call stood
            sub = set(_walk(F, F[c]["ch"][0]))
            mv = [e + off for e in hb["elems"] if e >= 0 and (e + off) in sub]
            moved = set(mv)
            b2["elems"] = mv + b2["elems"]
        for e in hb["elems"]:
            if e < 0:
                continue
            e2 = e + off
            if e2 in moved:
                continue
            if e2 in new_elems_for:
                nb["elems"] += new_elems_for[e2]
                if e2 in thread and thread[e2] is not None:
                    target = thread[e2]
            else:
                nb["elems"].append(e2)
        for k_ in ("term", "cond", "label"):
            if hb.get(k_) is not None and hb[k_] >= 0:
                nb[k_] = hb[k_] + off
        if "termk" in hb:
            nb["termk"] = hb["termk"]
        if target is not None:
            nb["succs"] = [target]
        cfg["blocks"].append(nb)
    if any(b2["id"] in [x for x in nb_["succs"]] for nb_ in cfg["blocks"]):
        cfg["blocks"].append(b2)
    live = sorted(j for j in set(_walk(F, hroot)) | set(_walk(F, c)) if j >= off or j == c)
    _copy_in_out(F, off, tag, hcfg, live)
    _result_accumulator(F, off, tag, c, par, single_tail, live)
    fd.setdefault("inlined", []).append(hd["name"])
    return True


def _declref(F, j):
    j = _strip(F, j)
    return j if F[j]["k"] == "DeclRef" else None


def _copy_in_out(F, off, tag, hcfg, rng):
    """A callee local that is a working copy of a caller variable - initialised from it (`T v = *p;` with
    argument `&x`, already presented as `T v = x;`) and written back (`*p = v;`) before every exit, the caller
    variable not being touched in between - is that variable: every reference is renamed, and the copy-in and
    the copy-out become `x = x`."""
    suffix = "~" + tag

    def tagged(d):
        return isinstance(d, str) and d.endswith(suffix)
    for v in [j for j in rng if F[j]["k"] == "Var" and tagged(F[j].get("decl")) and F[j]["ch"] and not F[j].get("static")]:
        init = _declref(F, F[v]["ch"][0])
        if init is None or F[init].get("ref") not in ("local", "param") or tagged(F[init].get("decl")):
            continue
        X, D = F[init]["decl"], F[v]["decl"]
        outs = []
        for j in rng:
            if F[j]["k"] == "Assign" and F[j].get("op") == "=":
                a, b = _declref(F, F[j]["ch"][0]), _declref(F, F[j]["ch"][1])
                if a is not None and b is not None and F[a].get("decl") == X and F[b].get("decl") == D:
                    outs.append(j)
        refs_x = [j for j in rng if F[j]["k"] == "DeclRef" and F[j].get("decl") == X]
        if not outs or len(refs_x) != 1 + len(outs):
            if not outs and F[v]["name"] == F[init]["name"] and D in _written_in(F, rng):
                for j in rng:
                    if F[j]["k"] in ("Var", "DeclRef") and F[j].get("decl") == D:
                        F[j]["name"] = F[init]["name"] + "$copy"
            continue
        # address of the copy taken: not a plain working copy
        if D in _written_decls_addr(F, rng):
            continue
        # every exit of the callee is preceded, in its block, by the copy-out with no later write of the copy
        ok = True
        preds = [hb for hb in hcfg["blocks"] if hcfg["exit"] in hb["succs"] and hb["id"] != hcfg["exit"]]
        for hb in preds:
            el = [e + off for e in hb["elems"] if e >= 0]
            if any(F[e]["k"] == "Call" and F[e].get("callee") in NORETURN for e in el):
                continue
            pos = [i for i, e in enumerate(el) if e in outs]
            if not pos:
                ok = False
                break
            for e in el[pos[-1] + 1:]:
                nd = F[e]
                if nd["k"] in ("Assign", "CompoundAssign") or (nd["k"] == "Un" and nd.get("op") in ("post++", "post--", "pre++", "pre--")):
                    t = _declref(F, nd["ch"][0])
                    if t is not None and F[t].get("decl") == D:
                        ok = False
        if not ok or not preds:
            # a copy of the caller's variable that is not (provably) written back is a different variable: it
            # must not be mistaken for the caller's one because it bears the same name
            if F[v]["name"] == F[init]["name"]:
                for j in rng:
                    if F[j]["k"] in ("Var", "DeclRef") and F[j].get("decl") == D:
                        F[j]["name"] = F[init]["name"] + "$copy"
            continue
        for j in rng:
            if F[j]["k"] in ("Var", "DeclRef") and F[j].get("decl") == D:
                F[j]["decl"] = X
                F[j]["name"] = F[init]["name"]
                if F[j]["k"] == "DeclRef":
                    F[j]["ref"] = F[init]["ref"]


def _written_in(F, rng):
    out = set()
    for j in rng:
        nd = F[j]
        if nd["k"] in ("Assign", "CompoundAssign") or (nd["k"] == "Un" and nd.get("op") in ("post++", "post--", "pre++", "pre--", "&")):
            t = _declref(F, nd["ch"][0])
            if t is not None:
                out.add(F[t].get("decl"))
    return out


def _written_decls_addr(F, rng):
    out = set()
    for j in rng:
        if F[j]["k"] == "Un" and F[j].get("op") == "&":
            t = _declref(F, F[j]["ch"][0])
            if t is not None:
                out.add(F[t].get("decl"))
    return out


def _result_accumulator(F, off, tag, c, par, single_tail, rng):
    """`y += helper(..)` where the helper returns a local that starts at 0 and is only ever added to: the
    additions are additions to y (the helper cannot see y), the call site adds 0."""
    if not single_tail or F[c]["k"] != "Paren":
        return
    suffix = "~" + tag
    a = _declref(F, F[c]["ch"][0])
    if a is None or not str(F[a].get("decl", "")).endswith(suffix):
        return
    A = F[a]["decl"]
    q = par[c]
    while q is not None and F[q]["k"] in ("Paren", "ICast", "Cast"):
        q = par[q]
    if q is None or F[q]["k"] != "CompoundAssign" or F[q].get("op") != "+=" or par[q] is None or F[par[q]]["k"] not in EXPR_STMT_PARENTS:
        return
    if c not in set(_walk(F, F[q]["ch"][1])):
        return
    y = _declref(F, F[q]["ch"][0])
    if y is None or F[y].get("ref") not in ("local", "param"):
        return
    Y = F[y]["decl"]
    if any(F[j]["k"] == "DeclRef" and F[j].get("decl") == Y for j in rng):
        return
    cpar = {}
    for j in rng:
        for x in F[j]["ch"]:
            cpar[x] = j
    vars_ = [j for j in rng if F[j]["k"] == "Var" and F[j].get("decl") == A]
    if len(vars_) != 1 or F[vars_[0]].get("static") or not F[vars_[0]]["ch"] or _constval(F, F[vars_[0]]["ch"][0], {}) != 0:
        return
    for j in rng:
        if F[j]["k"] == "DeclRef" and F[j].get("decl") == A and j != a:
            q2 = cpar.get(j)
            while q2 is not None and F[q2]["k"] in ("Paren", "ICast", "Cast"):
                q2 = cpar.get(q2)
            if q2 is None:
                return
            upd = (F[q2]["k"] == "CompoundAssign" and F[q2].get("op") == "+=" and _declref(F, F[q2]["ch"][0]) == j) or \
                  (F[q2]["k"] == "Un" and F[q2].get("op") in ("post++", "pre++"))
            if not upd or cpar.get(q2) is None or F[cpar[q2]]["k"] not in EXPR_STMT_PARENTS:
                return
    for j in rng:
        if F[j]["k"] in ("Var", "DeclRef") and F[j].get("decl") == A:
            F[j]["decl"] = Y
            F[j]["name"] = F[y]["name"]
            if F[j]["k"] == "DeclRef":
                F[j]["ref"] = F[y]["ref"]
    v = vars_[0]
    nref = len(F)
    F.append({"k": "DeclRef", "ref": F[y]["ref"], "name": F[y]["name"], "decl": Y, "t": F[y].get("t", ""), "ch": [], "l": F[v].get("l"), "inl": tag})
    if "ct" in F[y]:
        F[nref]["ct"] = F[y]["ct"]
    F[v]["ch"] = [nref]
    keep = {k_: v_ for k_, v_ in F[c].items() if k_ in ("l", "t", "ct", "inl")}
    F[c] = {"k": "Int", "v": 0, "cv": 0, "ch": []}
    F[c].update(keep)


def inline_new_functions(unit_name, d, anchors):
    """d: the unit's fact dict (functions as dicts).  Returns the list of names removed."""
    if anchors is None:
        return []
    known = anchors.get("_names")
    if known is None:
        known = set(k.split(":", 1)[1] for k in anchors["functions"])
        anchors["_names"] = known
    fns = d["functions"]
    new = {fd["name"]: fd for fd in fns if fd["name"] not in known and fd.get("cfg") is not None and fd["file"].endswith(".c")}
    if not new:
        return []
    # call graph among the new functions; order callees first, drop recursive ones
    def callees(fd):
        return set(nd.get("callee") for nd in fd["nodes"] if nd["k"] == "Call" and nd.get("callee") in new)
    order = []
    state = {}
    bad = set()

    def visit(n, stack):
        if state.get(n) == 2:
            return
        if state.get(n) == 1:
            bad.update(stack[stack.index(n):])
            return
        state[n] = 1
        for m in callees(new[n]):
            visit(m, stack + [n])
        state[n] = 2
        order.append(n)
    for n in sorted(new):
        visit(n, [])
    serial = [0]
    left = {}

    def process(fd):
        changed = True
        rounds = 0
        while changed and rounds < 50:
            changed = False
            rounds += 1
            for c, nd in enumerate(fd["nodes"]):
                if nd["k"] == "Call" and nd.get("callee") in new and nd["callee"] not in bad and nd["callee"] != fd["name"] and not nd.get("noinl"):
                    # only nodes still attached to the tree
                    serial[0] += 1
                    pristine = copy.deepcopy(new[nd["callee"]]) if False else new[nd["callee"]]
                    if inline_call(fd, c, pristine, serial[0]):
                        changed = True
                        break
                    nd["noinl"] = True
                    left[nd["callee"]] = left.get(nd["callee"], 0) + 1
    for n in order:
        if n not in bad:
            process(new[n])
    for fd in fns:
        if fd["name"] not in new:
            process(fd)
    removed = []
    for n in order:
        hd = new[n]
        if n in bad or left.get(n) or not hd.get("static"):
            continue
        # still referenced (address taken, call not replaced)?
        ref = False
        for fd in fns:
            if fd is hd or fd["name"] in removed:
                continue
            att = set(_walk(fd["nodes"], fd["root"]))
            for j in att:
                nd = fd["nodes"][j]
                if nd["k"] == "DeclRef" and nd.get("ref") == "func" and nd.get("name") == n:
                    ref = True
                    break
            if ref:
                break
        if not ref:
            removed.append(n)
    if removed:
        d["functions"] = [fd for fd in fns if fd["name"] not in removed]
        d.setdefault("_inlined", []).extend(removed)
    return removed
