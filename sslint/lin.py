"""Polynomial normal forms over opaque atoms (LIN family).

poly(fn, node) -> dict {monomial(tuple of sorted atom strings): int coeff}.
Atoms are canonical strings of sub-expressions that are not +,-,* or
constants.  Locals are forward-substituted by their unique reaching
definition (same rule as Function.canon)."""
from fractions import Fraction


def p_const(c):
    return {(): c} if c else {}


def p_add(a, b, sign=1):
    r = dict(a)
    for m, c in b.items():
        v = r.get(m, 0) + sign * c
        if v:
            r[m] = v
        else:
            r.pop(m, None)
    return r


def p_mul(a, b):
    r = {}
    for m1, c1 in a.items():
        for m2, c2 in b.items():
            m = tuple(sorted(m1 + m2))
            v = r.get(m, 0) + c1 * c2
            if v:
                r[m] = v
            else:
                r.pop(m, None)
    return r


def p_atom(s):
    return {(s,): 1}


def p_str(p):
    if not p:
        return "0"
    parts = []
    for m in sorted(p):
        c = p[m]
        if m == ():
            parts.append(str(c))
        else:
            parts.append(("%s*" % c if c != 1 else "") + "*".join(m))
    return " + ".join(parts)


def p_parse(s):
    """inverse of p_str for sums whose terms are integers, atoms or integer multiples of one term (a product of
    atoms is read back as one opaque term, consistently, so differences of parsed values are still exact)"""
    import re
    parts, depth, cur = [], 0, ""
    i = 0
    while i < len(s):
        ch = s[i]
        if ch in "([":
            depth += 1
        elif ch in ")]":
            depth -= 1
        if depth == 0 and s.startswith(" + ", i):
            parts.append(cur)
            cur = ""
            i += 3
            continue
        cur += ch
        i += 1
    parts.append(cur)
    r = {}
    for t in parts:
        if re.match(r"^-?\d+$", t):
            r = p_add(r, p_const(int(t)))
            continue
        m = re.match(r"^(-?\d+)\*(.+)$", t)
        if m:
            r = p_add(r, {(m.group(2),): int(m.group(1))})
        else:
            r = p_add(r, p_atom(t))
    return r


def poly(fn, i, subst=True, depth=6, atom_hook=None, _stack=()):
    nd = fn.nodes[i]
    k = nd["k"]
    R = lambda j, d=depth, st=_stack: poly(fn, j, subst, d, atom_hook, st)
    if k in ("Paren", "ICast", "Cast"):
        return R(nd["ch"][0])
    if k == "Int" or k == "Char":
        return p_const(int(nd["v"]))
    if "cv" in nd and k not in ("DeclRef",) and isinstance(nd["cv"], int):
        return p_const(nd["cv"])
    if k == "Sizeof":
        # not folded (dependent)?  treat as atom
        return p_atom(fn.canon(i, subst=False))
    if k == "Bin":
        op = nd["op"]
        if op == "+":
            return p_add(R(nd["ch"][0]), R(nd["ch"][1]))
        if op == "-":
            return p_add(R(nd["ch"][0]), R(nd["ch"][1]), -1)
        if op == "*":
            return p_mul(R(nd["ch"][0]), R(nd["ch"][1]))
    if k == "Un":
        if nd["op"] == "-":
            return p_mul(p_const(-1), R(nd["ch"][0]))
        if nd["op"] == "+":
            return R(nd["ch"][0])
    if k == "DeclRef" and nd["ref"] in ("local", "param") and subst and depth > 0 and nd["decl"] not in fn.addr_taken and nd["decl"] not in _stack:
        v = fn.rd.unique_def_value(i)
        if v is not None and not fn._is_alloc(v):
            return poly(fn, v, subst, depth - 1, atom_hook, _stack + (nd["decl"],))
    if atom_hook is not None:
        r = atom_hook(fn, i)
        if r is not None:
            return r
    return p_atom(fn.canon(i, subst=subst, depth=depth))


def p_divide_atom(p, atom):
    """if every monomial contains `atom`, divide it out; else None"""
    r = {}
    for m, c in p.items():
        if atom not in m:
            return None
        l = list(m)
        l.remove(atom)
        r[tuple(l)] = c
    return r


def p_subst(p, atom, q):
    """replace every occurrence of `atom` by polynomial q"""
    r = {}
    for m, c in p.items():
        k = m.count(atom)
        rest = tuple(x for x in m if x != atom)
        term = {rest: c}
        for _ in range(k):
            term = p_mul(term, q)
        r = p_add(r, term)
    return r


def p_nonneg(p):
    """all coefficients non-negative (atoms are assumed non-negative)"""
    return all(c >= 0 for c in p.values())


def p_atoms(p):
    s = set()
    for m in p:
        s.update(m)
    return s


def new_value(fn, s, subst=False):
    """polynomial of the value a store (an entry of paths.stores) leaves in its
    target, whatever the spelling: x = e, x += e, x -= e, x++, x--"""
    if s["op"] == "=":
        return poly(fn, s["rhs"], subst=subst)
    old = poly(fn, s["lhs"], subst=False)
    if s["op"] == "++":
        return p_add(old, p_const(1))
    if s["op"] == "--":
        return p_add(old, p_const(1), -1)
    if s["op"] == "+=":
        return p_add(old, poly(fn, s["rhs"], subst=subst))
    if s["op"] == "-=":
        return p_add(old, poly(fn, s["rhs"], subst=subst), -1)
    return None
