#!/usr/bin/env python3
"""Regenerates /verif/MANIFEST.json from sslint/registry.py."""
import json, os, sys
V = os.path.dirname(os.path.dirname(os.path.abspath(__file__)))
sys.path.insert(0, V)
from sslint import registry
props = [json.loads(l) for l in open(os.path.join(V, "properties.jsonl"))]
repo_commits = registry.__dict__.get("SOURCE_COMMITS", [])
m = {
    "version": 1,
    "setup_cmd": "make -C /verif/tools",
    "hooks": {
        "guard": "SOUNDSWALLOWER_VERIF",
        "enable": "no hooks: the analysis reads the unmodified source through the clang front end; nothing in /repo is instrumented",
        "baseline_off_cmd": "/verif/tools/baseline.sh",
        "source_commits": [],
        "add_only": True,
    },
    "engines": [{"name": "sslint", "path": "/verif/check", "serves_properties": sorted(registry.CHECKS), "kind_free_text": "repository-specific static analysis: libTooling fact extractor (tools/ssfacts.cc: typed AST, macro provenance, clang::CFG) + Python rule engine (sslint/: reaching definitions, canonical forms, guard dominance, path pairing, typestate, census tables)"}],
    "checks": [],
    "not_applicable": [],
    "notes": "exit codes of ./check: 0 all obligations discharged (KNOWN-FINDING lines possible), 1 VIOLATION, 2 ANALYSIS-INCOMPLETE (anchor vanished / instance floor not met / positive control dead). Known findings: /verif/known_findings.json.",
}
for p in props:
    pid = p["id"]
    c = registry.CHECKS.get(pid)
    if c is None:
        m["not_applicable"].append({"property_id": pid, "reason": registry.__dict__.get("NA", {}).get(pid, "check not implemented yet (framework under construction; see DESIGN.md section 9)")})
        continue
    m["checks"].append({
        "property_id": pid,
        "quick_cmd": "./check %s --tier quick" % pid,
        "thorough_cmd": "./check %s --tier thorough" % pid,
        "evidence_file": "/verif/evidence/%s.json" % pid,
        "replay_cmd_template": "./check %s --replay {path}" % pid,
        "engine": "sslint",
        "level_claimed": {"category": "other", "text": c["text"], "design_ref": c["design_ref"]},
        "level_note": registry.NOTE,
        "technique": c["technique"],
    })
json.dump(m, open(os.path.join(V, "MANIFEST.json"), "w"), indent=1)
print("checks:", [c["property_id"] for c in m["checks"]], "n/a:", len(m["not_applicable"]))
