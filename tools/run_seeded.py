#!/usr/bin/env python3
"""Runs the registered checks against every kept seeded change
(/verif/seeded/<id>/patch.diff) on a scratch copy of /repo (removed
afterwards) and reports which checks raise a VIOLATION.
usage: tools/run_seeded.py [seed-id ...] [--all-checks] [--update]"""
import json, os, shutil, subprocess, sys, tempfile
V = os.path.dirname(os.path.dirname(os.path.abspath(__file__)))
sys.path.insert(0, V)
from sslint import registry

def main():
    ids = [a for a in sys.argv[1:] if not a.startswith("--")]
    allc = "--all-checks" in sys.argv
    upd = "--update" in sys.argv
    seeds = sorted(d for d in os.listdir(os.path.join(V, "seeded")) if os.path.isdir(os.path.join(V, "seeded", d)))
    if ids:
        seeds = [s for s in seeds if s in ids]
    scratch = tempfile.mkdtemp(prefix="ss_seed_")
    res = {}
    try:
        for sid in seeds:
            meta = json.load(open(os.path.join(V, "seeded", sid, "meta.json")))
            base = os.path.join(scratch, sid)
            os.makedirs(base)
            for d in ("src", "include"):
                shutil.copytree(os.path.join("/repo", d), os.path.join(base, d))
            for f in ("CMakeLists.txt", "config.h.in"):
                shutil.copy(os.path.join("/repo", f), base)
            pf = os.path.join(V, "seeded", sid, "patch_rebased.diff")
            if not os.path.exists(pf):
                pf = os.path.join(V, "seeded", sid, "patch.diff")
            r = subprocess.run(["patch", "-p1", "-s", "--no-backup-if-mismatch", "-i", pf], cwd=base, capture_output=True, text=True)
            if r.returncode != 0:
                print("%-8s patch does not apply to the current /repo: %s" % (sid, (r.stdout + r.stderr).strip()[:200]))
                res[sid] = None
                continue
            props = sorted(registry.CHECKS) if allc else [p for p in [meta["property"]] if p in registry.CHECKS]
            hits = []
            for p in props:
                rr = subprocess.run([os.path.join(V, "check"), p], capture_output=True, text=True, env=dict(os.environ, SS_REPO=base, SS_EVIDENCE=os.path.join(scratch, "_ev")), cwd=V)
                if rr.returncode == 1:
                    rules = [l.strip() for l in rr.stdout.splitlines() if l.startswith("  rule ")]
                    hits.append((p, sorted(set(x.split()[1] for x in rules))))
                elif rr.returncode == 2:
                    hits.append((p, ["ANALYSIS-INCOMPLETE"]))
            res[sid] = hits
            own = [h for h in hits if h[0] == meta["property"] and h[1] != ["ANALYSIS-INCOMPLETE"]]
            print("%-8s %-9s %s" % (sid, "DETECTED" if own else ("(no check)" if meta["property"] not in registry.CHECKS else "MISSED"), "; ".join("%s: %s" % (p, ",".join(r)) for p, r in hits)))
            if upd:
                meta["detected_by"] = [{"check": p, "rules": r} for p, r in hits if r != ["ANALYSIS-INCOMPLETE"]] or None
                meta["analysis_incomplete"] = sorted(p for p, r in hits if r == ["ANALYSIS-INCOMPLETE"]) or None
                json.dump(meta, open(os.path.join(V, "seeded", sid, "meta.json"), "w"), indent=1)
            shutil.rmtree(base, ignore_errors=True)
    finally:
        shutil.rmtree(scratch, ignore_errors=True)
    # restore evidence from the real tree
    for p in sorted(registry.CHECKS):
        subprocess.run([os.path.join(V, "check"), p], capture_output=True, cwd=V)

if __name__ == "__main__":
    main()
