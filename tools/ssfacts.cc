// ssfacts: fact extractor for the SoundSwallower static checks.
//
// usage: ssfacts <out.json> <source.c> -- <compiler flags>
//
// Emits, for one translation unit, a JSON document with
//   records, enums, globals (with initialiser trees), function prototypes
//   (with the header that declares them) and, for every function *defined*
//   in the unit (including static inline functions from headers), the typed
//   AST of the body as a flat node array plus the clang::CFG built with
//   setAllAlwaysAdd() whose elements refer to node ids.
//
// Nothing here decides a property; it only reports the resolved program.

#include "clang/AST/ASTConsumer.h"
#include "clang/AST/ASTContext.h"
#include "clang/AST/Decl.h"
#include "clang/AST/Expr.h"
#include "clang/AST/RecordLayout.h"
#include "clang/AST/Stmt.h"
#include "clang/Analysis/CFG.h"
#include "clang/Basic/SourceManager.h"
#include "clang/Frontend/CompilerInstance.h"
#include "clang/Frontend/FrontendAction.h"
#include "clang/Lex/Lexer.h"
#include "clang/Tooling/CompilationDatabase.h"
#include "clang/Tooling/Tooling.h"
#include "llvm/Support/raw_ostream.h"

#include <map>
#include <set>
#include <string>
#include <vector>

using namespace clang;

static std::string g_out;

static std::string jstr(llvm::StringRef s)
{
    std::string o = "\"";
    for (unsigned char c : s) {
        switch (c) {
        case '"': o += "\\\""; break;
        case '\\': o += "\\\\"; break;
        case '\n': o += "\\n"; break;
        case '\r': o += "\\r"; break;
        case '\t': o += "\\t"; break;
        default:
            if (c < 0x20 || c >= 0x7f) {
                char buf[8];
                snprintf(buf, sizeof buf, "\\u%04x", c);
                o += buf;
            } else
                o += (char)c;
        }
    }
    o += "\"";
    return o;
}

namespace {

struct Emitter {
    ASTContext &Ctx;
    SourceManager &SM;
    const LangOptions &LO;
    std::string MainFile;

    Emitter(ASTContext &C)
        : Ctx(C), SM(C.getSourceManager()), LO(C.getLangOpts())
    {
        if (auto FE = SM.getFileEntryForID(SM.getMainFileID()))
            MainFile = std::string(FE->getName());
    }

    std::string fileOf(SourceLocation L)
    {
        L = SM.getExpansionLoc(L);
        llvm::StringRef f = SM.getFilename(L);
        return std::string(f);
    }

    std::string locJson(SourceLocation L)
    {
        SourceLocation E = SM.getExpansionLoc(L);
        unsigned line = SM.getExpansionLineNumber(E);
        unsigned col = SM.getExpansionColumnNumber(E);
        return "[" + std::to_string(line) + "," + std::to_string(col) + "]";
    }

    // Macro names from innermost to outermost for a location inside a
    // macro expansion (only expansions of macro *bodies and arguments*).
    std::string macJson(SourceLocation L)
    {
        if (!L.isMacroID())
            return "";
        std::vector<std::string> names;
        SourceLocation Cur = L;
        int guard = 0;
        while (Cur.isMacroID() && guard++ < 16) {
            // Arguments: walk to where the argument was written, but
            // record the macro whose argument it is.
            if (SM.isMacroArgExpansion(Cur)) {
                llvm::StringRef n = Lexer::getImmediateMacroName(Cur, SM, LO);
                names.push_back("arg:" + std::string(n));
                Cur = SM.getImmediateExpansionRange(Cur).getBegin();
                continue;
            }
            llvm::StringRef n = Lexer::getImmediateMacroName(Cur, SM, LO);
            names.push_back(std::string(n));
            Cur = SM.getImmediateExpansionRange(Cur).getBegin();
        }
        std::string o = "[";
        for (size_t i = 0; i < names.size(); i++) {
            if (i)
                o += ",";
            o += jstr(names[i]);
        }
        o += "]";
        return o;
    }

    std::string typeStr(QualType T)
    {
        if (T.isNull())
            return "";
        return T.getAsString(Ctx.getPrintingPolicy());
    }
    std::string canonStr(QualType T)
    {
        if (T.isNull())
            return "";
        return T.getCanonicalType().getAsString(Ctx.getPrintingPolicy());
    }

    static std::string recName(const RecordDecl *RD)
    {
        std::string n = RD->getNameAsString();
        if (n.empty())
            if (auto *TD = RD->getTypedefNameForAnonDecl())
                n = TD->getNameAsString();
        return n;
    }

    std::string declId(const ValueDecl *D)
    {
        // A stable id inside the TU: name + declaration position for locals
        // and params; bare name for globals, functions and enum constants.
        std::string n = D->getNameAsString();
        if (auto *VD = dyn_cast<VarDecl>(D)) {
            if (VD->isLocalVarDeclOrParm() && !VD->isStaticLocal()) {
                SourceLocation E = SM.getExpansionLoc(VD->getLocation());
                // Macro-expanded locals at the same expansion point are
                // distinguished by spelling offset.
                SourceLocation S = SM.getSpellingLoc(VD->getLocation());
                return n + "@" + std::to_string(SM.getExpansionLineNumber(E)) + ":" + std::to_string(SM.getExpansionColumnNumber(E)) + (VD->getLocation().isMacroID() ? ("~" + std::to_string(SM.getFileOffset(S))) : "");
            }
        }
        return n;
    }

    // ---- function body dumping ------------------------------------------
    struct FnCtx {
        std::vector<std::string> nodes;
        std::map<const Stmt *, int> ids;
        std::map<const VarDecl *, int> varids;
    };

    std::string kids(const std::vector<int> &c)
    {
        std::string o = "[";
        for (size_t i = 0; i < c.size(); i++) {
            if (i)
                o += ",";
            o += std::to_string(c[i]);
        }
        o += "]";
        return o;
    }

    int addVar(FnCtx &F, const VarDecl *VD)
    {
        std::vector<int> ch;
        if (VD->hasInit())
            ch.push_back(addStmt(F, VD->getInit()));
        int id = (int)F.nodes.size();
        F.nodes.push_back("");
        std::string o = "{\"k\":\"Var\",\"name\":" + jstr(VD->getNameAsString()) + ",\"decl\":" + jstr(declId(VD)) + ",\"t\":" + jstr(typeStr(VD->getType())) + ",\"ct\":" + jstr(canonStr(VD->getType())) + ",\"l\":" + locJson(VD->getLocation()) + ",\"ch\":" + kids(ch);
        if (VD->isStaticLocal())
            o += ",\"static\":true";
        o += "}";
        F.nodes[id] = o;
        F.varids[VD] = id;
        return id;
    }

    int addStmt(FnCtx &F, const Stmt *S)
    {
        if (!S) {
            int id = (int)F.nodes.size();
            F.nodes.push_back("{\"k\":\"Absent\",\"ch\":[]}");
            return id;
        }
        auto it = F.ids.find(S);
        if (it != F.ids.end())
            return it->second;

        // Reserve the id after children so that ids are post-order; but we
        // need the id for the map before recursion only for cycles (none).
        std::vector<int> ch;
        std::string extra;
        std::string kind = S->getStmtClassName();

        auto addChild = [&](const Stmt *C) { ch.push_back(addStmt(F, C)); };

        if (auto *DS = dyn_cast<DeclStmt>(S)) {
            kind = "Decl";
            for (auto *D : DS->decls()) {
                if (auto *VD = dyn_cast<VarDecl>(D))
                    ch.push_back(addVar(F, VD));
            }
        } else if (auto *IS = dyn_cast<IfStmt>(S)) {
            kind = "If";
            addChild(IS->getCond());
            addChild(IS->getThen());
            addChild(IS->getElse());
        } else if (auto *WS = dyn_cast<WhileStmt>(S)) {
            kind = "While";
            addChild(WS->getCond());
            addChild(WS->getBody());
        } else if (auto *FS = dyn_cast<ForStmt>(S)) {
            kind = "For";
            addChild(FS->getInit());
            addChild(FS->getCond());
            addChild(FS->getInc());
            addChild(FS->getBody());
        } else if (auto *DoS = dyn_cast<DoStmt>(S)) {
            kind = "Do";
            addChild(DoS->getBody());
            addChild(DoS->getCond());
        } else if (auto *SS = dyn_cast<SwitchStmt>(S)) {
            kind = "Switch";
            addChild(SS->getCond());
            addChild(SS->getBody());
        } else if (auto *CS = dyn_cast<CaseStmt>(S)) {
            kind = "Case";
            addChild(CS->getLHS());
            addChild(CS->getSubStmt());
            Expr::EvalResult R;
            if (CS->getLHS()->EvaluateAsInt(R, Ctx))
                extra += ",\"v\":" + llvm::toString(R.Val.getInt(), 10);
        } else if (auto *DfS = dyn_cast<DefaultStmt>(S)) {
            kind = "Default";
            addChild(DfS->getSubStmt());
        } else if (auto *LS = dyn_cast<LabelStmt>(S)) {
            kind = "Label";
            extra += ",\"name\":" + jstr(LS->getName());
            addChild(LS->getSubStmt());
        } else if (auto *GS = dyn_cast<GotoStmt>(S)) {
            kind = "Goto";
            extra += ",\"name\":" + jstr(GS->getLabel()->getName());
        } else if (auto *RS = dyn_cast<ReturnStmt>(S)) {
            kind = "Return";
            if (RS->getRetValue())
                addChild(RS->getRetValue());
        } else if (isa<BreakStmt>(S)) {
            kind = "Break";
        } else if (isa<ContinueStmt>(S)) {
            kind = "Continue";
        } else if (isa<NullStmt>(S)) {
            kind = "Null";
        } else if (isa<CompoundStmt>(S)) {
            kind = "Compound";
            for (auto *C : S->children())
                addChild(C);
        } else if (auto *E = dyn_cast<Expr>(S)) {
            // expressions
            if (auto *BO = dyn_cast<BinaryOperator>(E)) {
                if (isa<CompoundAssignOperator>(BO))
                    kind = "CompoundAssign";
                else if (BO->isAssignmentOp())
                    kind = "Assign";
                else
                    kind = "Bin";
                extra += ",\"op\":" + jstr(BO->getOpcodeStr());
                addChild(BO->getLHS());
                addChild(BO->getRHS());
            } else if (auto *UO = dyn_cast<UnaryOperator>(E)) {
                kind = "Un";
                std::string op = std::string(UnaryOperator::getOpcodeStr(UO->getOpcode()));
                if (UO->isPostfix())
                    op = "post" + op;
                else if (UO->isIncrementDecrementOp())
                    op = "pre" + op;
                extra += ",\"op\":" + jstr(op);
                addChild(UO->getSubExpr());
            } else if (auto *CE = dyn_cast<CallExpr>(E)) {
                kind = "Call";
                if (const FunctionDecl *FD = CE->getDirectCallee())
                    extra += ",\"callee\":" + jstr(FD->getNameAsString());
                else {
                    // indirect: slot (record, field) if callee is a member
                    const Expr *C = CE->getCallee()->IgnoreParenImpCasts();
                    while (auto *U = dyn_cast<UnaryOperator>(C)) {
                        if (U->getOpcode() == UO_Deref)
                            C = U->getSubExpr()->IgnoreParenImpCasts();
                        else
                            break;
                    }
                    if (auto *ME = dyn_cast<MemberExpr>(C)) {
                        if (auto *FD = dyn_cast<FieldDecl>(ME->getMemberDecl()))
                            extra += ",\"slot\":[" + jstr(recName(FD->getParent())) + "," + jstr(FD->getNameAsString()) + "]";
                    } else if (auto *DR = dyn_cast<DeclRefExpr>(C)) {
                        extra += ",\"fptr\":" + jstr(DR->getDecl()->getNameAsString());
                    }
                }
                addChild(CE->getCallee());
                for (auto *A : CE->arguments())
                    addChild(A);
            } else if (auto *DR = dyn_cast<DeclRefExpr>(E)) {
                kind = "DeclRef";
                const ValueDecl *D = DR->getDecl();
                std::string ref = "other";
                if (isa<ParmVarDecl>(D))
                    ref = "param";
                else if (auto *VD = dyn_cast<VarDecl>(D)) {
                    if (VD->isStaticLocal())
                        ref = "global";
                    else if (VD->isLocalVarDecl())
                        ref = "local";
                    else
                        ref = "global";
                } else if (isa<FunctionDecl>(D))
                    ref = "func";
                else if (isa<EnumConstantDecl>(D))
                    ref = "enum";
                extra += ",\"ref\":" + jstr(ref) + ",\"name\":" + jstr(D->getNameAsString()) + ",\"decl\":" + jstr(declId(D));
            } else if (auto *ME = dyn_cast<MemberExpr>(E)) {
                kind = "Member";
                extra += ",\"field\":" + jstr(ME->getMemberDecl()->getNameAsString());
                if (auto *FD = dyn_cast<FieldDecl>(ME->getMemberDecl()))
                    extra += ",\"rec\":" + jstr(recName(FD->getParent()));
                extra += std::string(",\"arrow\":") + (ME->isArrow() ? "true" : "false");
                addChild(ME->getBase());
            } else if (auto *AS = dyn_cast<ArraySubscriptExpr>(E)) {
                kind = "Subscript";
                addChild(AS->getBase());
                addChild(AS->getIdx());
            } else if (auto *CA = dyn_cast<CastExpr>(E)) {
                kind = isa<ImplicitCastExpr>(CA) ? "ICast" : "Cast";
                extra += ",\"ck\":" + jstr(CA->getCastKindName());
                addChild(CA->getSubExpr());
            } else if (auto *PE = dyn_cast<ParenExpr>(E)) {
                kind = "Paren";
                addChild(PE->getSubExpr());
            } else if (auto *CO = dyn_cast<ConditionalOperator>(E)) {
                kind = "Cond";
                addChild(CO->getCond());
                addChild(CO->getTrueExpr());
                addChild(CO->getFalseExpr());
            } else if (auto *IL = dyn_cast<IntegerLiteral>(E)) {
                kind = "Int";
                extra += ",\"v\":" + llvm::toString(IL->getValue(), 10, E->getType()->isSignedIntegerType());
            } else if (auto *FL = dyn_cast<FloatingLiteral>(E)) {
                kind = "Float";
                llvm::SmallString<32> s;
                FL->getValue().toString(s);
                extra += ",\"v\":" + jstr(s);
            } else if (auto *SL = dyn_cast<StringLiteral>(E)) {
                kind = "Str";
                if (SL->getCharByteWidth() == 1)
                    extra += ",\"v\":" + jstr(SL->getString());
            } else if (auto *CL = dyn_cast<CharacterLiteral>(E)) {
                kind = "Char";
                extra += ",\"v\":" + std::to_string(CL->getValue());
            } else if (auto *UE = dyn_cast<UnaryExprOrTypeTraitExpr>(E)) {
                kind = "Sizeof";
                if (UE->getKind() != UETT_SizeOf)
                    kind = "TypeTrait";
                QualType AT = UE->getTypeOfArgument();
                extra += ",\"of\":" + jstr(UE->isArgumentType() ? "type" : "expr") + ",\"ty\":" + jstr(typeStr(AT)) + ",\"cty\":" + jstr(canonStr(AT));
                if (!UE->isArgumentType())
                    addChild(UE->getArgumentExpr());
            } else if (auto *ILE = dyn_cast<InitListExpr>(E)) {
                kind = "InitList";
                for (auto *I : ILE->inits())
                    addChild(I);
            } else if (auto *SE = dyn_cast<StmtExpr>(E)) {
                kind = "StmtExpr";
                addChild(SE->getSubStmt());
            } else if (auto *CLE = dyn_cast<CompoundLiteralExpr>(E)) {
                kind = "CompoundLiteral";
                addChild(CLE->getInitializer());
            } else {
                for (auto *C : S->children())
                    addChild(C);
            }
            extra += ",\"t\":" + jstr(typeStr(E->getType()));
            std::string ct = canonStr(E->getType());
            if (ct != typeStr(E->getType()))
                extra += ",\"ct\":" + jstr(ct);
            // constant value, if foldable
            if (!isa<IntegerLiteral>(E) && !isa<InitListExpr>(E) && !E->isValueDependent() && E->getType()->isIntegralOrEnumerationType() && E->isPRValue()) {
                Expr::EvalResult R;
                if (E->EvaluateAsInt(R, Ctx, Expr::SE_NoSideEffects))
                    extra += ",\"cv\":" + llvm::toString(R.Val.getInt(), 10);
            } else if (E->getType()->isRealFloatingType() && E->isPRValue() && !isa<FloatingLiteral>(E)) {
                llvm::APFloat V(0.0);
                if (E->EvaluateAsFloat(V, Ctx, Expr::SE_NoSideEffects)) {
                    llvm::SmallString<32> s;
                    V.toString(s);
                    extra += ",\"cv\":" + jstr(s);
                }
            }
        } else {
            for (auto *C : S->children())
                addChild(C);
        }

        int id = (int)F.nodes.size();
        F.ids[S] = id;
        std::string o = "{\"k\":" + jstr(kind) + ",\"l\":" + locJson(S->getBeginLoc()) + ",\"ch\":" + kids(ch) + extra;
        std::string m = macJson(S->getBeginLoc());
        if (!m.empty())
            o += ",\"mac\":" + m;
        // end line, useful for statements
        if (!isa<Expr>(S)) {
            SourceLocation EL = SM.getExpansionLoc(S->getEndLoc());
            o += ",\"el\":" + std::to_string(SM.getExpansionLineNumber(EL));
        }
        o += "}";
        F.nodes.push_back(o);
        return id;
    }

    std::string cfgJson(FnCtx &F, const FunctionDecl *FD)
    {
        CFG::BuildOptions BO;
        BO.setAllAlwaysAdd();
        BO.PruneTriviallyFalseEdges = false;
        BO.AddEHEdges = false;
        BO.AddImplicitDtors = false;
        BO.AddInitializers = false;
        std::unique_ptr<CFG> G = CFG::buildCFG(FD, FD->getBody(), &Ctx, BO);
        if (!G)
            return "null";
        std::string o = "{\"entry\":" + std::to_string(G->getEntry().getBlockID()) + ",\"exit\":" + std::to_string(G->getExit().getBlockID()) + ",\"blocks\":[";
        bool first = true;
        for (const CFGBlock *B : *G) {
            if (!first)
                o += ",";
            first = false;
            o += "{\"id\":" + std::to_string(B->getBlockID()) + ",\"elems\":[";
            bool fe = true;
            for (const CFGElement &El : *B) {
                if (auto CS = El.getAs<CFGStmt>()) {
                    const Stmt *S = CS->getStmt();
                    auto it = F.ids.find(S);
                    int id = -1;
                    if (it != F.ids.end())
                        id = it->second;
                    else if (auto *DS = dyn_cast<DeclStmt>(S)) {
                        // clang splits multi-declarator DeclStmts into
                        // synthetic single-decl ones: map to the Var node.
                        if (DS->isSingleDecl())
                            if (auto *VD = dyn_cast<VarDecl>(DS->getSingleDecl())) {
                                auto vi = F.varids.find(VD);
                                if (vi != F.varids.end())
                                    id = vi->second;
                            }
                    }
                    if (!fe)
                        o += ",";
                    fe = false;
                    o += std::to_string(id);
                }
            }
            o += "]";
            const Stmt *T = B->getTerminatorStmt();
            if (T) {
                auto it = F.ids.find(T);
                o += ",\"term\":" + std::to_string(it != F.ids.end() ? it->second : -1);
                o += ",\"termk\":" + jstr(T->getStmtClassName());
            }
            if (const Stmt *C = B->getTerminatorCondition(false)) {
                auto it = F.ids.find(C);
                o += ",\"cond\":" + std::to_string(it != F.ids.end() ? it->second : -1);
            }
            if (const Stmt *L = B->getLabel()) {
                auto it = F.ids.find(L);
                o += ",\"label\":" + std::to_string(it != F.ids.end() ? it->second : -1);
            }
            if (B->hasNoReturnElement())
                o += ",\"noreturn\":true";
            o += ",\"succs\":[";
            bool fs = true;
            for (auto SI = B->succ_begin(); SI != B->succ_end(); ++SI) {
                if (!fs)
                    o += ",";
                fs = false;
                const CFGBlock *SB = SI->getReachableBlock();
                if (!SB)
                    SB = SI->getPossiblyUnreachableBlock();
                if (SB)
                    o += std::to_string(SB->getBlockID());
                else
                    o += "null";
            }
            o += "]}";
        }
        o += "]}";
        return o;
    }

    std::string functionJson(const FunctionDecl *FD)
    {
        FnCtx F;
        // parameters as Var nodes first
        std::vector<int> pids;
        std::string params = "[";
        bool fp = true;
        for (auto *P : FD->parameters()) {
            if (!fp)
                params += ",";
            fp = false;
            params += "[" + jstr(P->getNameAsString()) + "," + jstr(typeStr(P->getType())) + "," + jstr(declId(P)) + "," + jstr(canonStr(P->getType())) + "]";
        }
        params += "]";
        int root = addStmt(F, FD->getBody());
        std::string cfg = cfgJson(F, FD);
        SourceLocation B = SM.getExpansionLoc(FD->getBeginLoc());
        SourceLocation E = SM.getExpansionLoc(FD->getEndLoc());
        std::string o = "{\"name\":" + jstr(FD->getNameAsString());
        o += ",\"file\":" + jstr(fileOf(FD->getLocation()));
        o += std::string(",\"static\":") + (FD->getStorageClass() == SC_Static ? "true" : "false");
        o += std::string(",\"inline\":") + (FD->isInlineSpecified() ? "true" : "false");
        o += ",\"ret\":" + jstr(typeStr(FD->getReturnType()));
        o += ",\"cret\":" + jstr(canonStr(FD->getReturnType()));
        o += ",\"loc\":[" + std::to_string(SM.getExpansionLineNumber(B)) + "," + std::to_string(SM.getExpansionLineNumber(E)) + "]";
        o += ",\"params\":" + params;
        o += ",\"root\":" + std::to_string(root);
        o += ",\"nodes\":[";
        for (size_t i = 0; i < F.nodes.size(); i++) {
            if (i)
                o += ",";
            o += "\n" + F.nodes[i];
        }
        o += "],\n\"cfg\":" + cfg + "}";
        return o;
    }

    std::string initTreeJson(const VarDecl *VD)
    {
        FnCtx F;
        int root = addStmt(F, VD->getInit());
        std::string o = "{\"root\":" + std::to_string(root) + ",\"nodes\":[";
        for (size_t i = 0; i < F.nodes.size(); i++) {
            if (i)
                o += ",";
            o += F.nodes[i];
        }
        o += "]}";
        return o;
    }
};

class Consumer : public ASTConsumer {
public:
    void HandleTranslationUnit(ASTContext &Ctx) override
    {
        Emitter Em(Ctx);
        SourceManager &SM = Ctx.getSourceManager();
        std::string recs, enums, globals, funcs, protos, typedefs;
        std::set<std::string> seenRec, seenProto, seenFn, seenGlobal, seenTd;

        std::vector<const Decl *> work;
        for (auto *D : Ctx.getTranslationUnitDecl()->decls())
            work.push_back(D);

        std::vector<const VarDecl *> staticLocals;

        for (size_t wi = 0; wi < work.size(); wi++) {
            const Decl *D = work[wi];
            std::string file = Em.fileOf(D->getLocation());
            bool sys = SM.isInSystemHeader(SM.getExpansionLoc(D->getLocation()));
            if (auto *RD = dyn_cast<RecordDecl>(D)) {
                if (!RD->isCompleteDefinition())
                    continue;
                std::string name = RD->getNameAsString();
                if (name.empty()) {
                    if (auto *TD = RD->getTypedefNameForAnonDecl())
                        name = TD->getNameAsString();
                }
                if (sys || name.empty() || seenRec.count(name))
                    continue;
                seenRec.insert(name);
                if (!recs.empty())
                    recs += ",\n";
                recs += jstr(name) + ":{\"file\":" + jstr(file) + ",\"union\":" + (RD->isUnion() ? "true" : "false") + ",\"fields\":[";
                bool ff = true;
                for (auto *F : RD->fields()) {
                    if (!ff)
                        recs += ",";
                    ff = false;
                    recs += "[" + jstr(F->getNameAsString()) + "," + jstr(Em.typeStr(F->getType())) + "," + jstr(Em.canonStr(F->getType())) + "]";
                    // nested anonymous records
                }
                recs += "]";
                if (!RD->isInvalidDecl() && !RD->isDependentType()) {
                    const ASTRecordLayout &L = Ctx.getASTRecordLayout(RD);
                    recs += ",\"size\":" + std::to_string(L.getSize().getQuantity());
                }
                recs += "}";
                for (auto *Sub : RD->decls())
                    if (isa<RecordDecl>(Sub))
                        work.push_back(Sub);
            } else if (auto *ED = dyn_cast<EnumDecl>(D)) {
                if (sys)
                    continue;
                for (auto *EC : ED->enumerators()) {
                    if (!enums.empty())
                        enums += ",";
                    enums += jstr(EC->getNameAsString()) + ":[" + llvm::toString(EC->getInitVal(), 10) + "," + jstr(ED->getNameAsString().empty() && ED->getTypedefNameForAnonDecl() ? ED->getTypedefNameForAnonDecl()->getNameAsString() : ED->getNameAsString()) + "]";
                }
            } else if (auto *TD = dyn_cast<TypedefNameDecl>(D)) {
                if (sys)
                    continue;
                std::string n = TD->getNameAsString();
                if (seenTd.count(n))
                    continue;
                seenTd.insert(n);
                if (!typedefs.empty())
                    typedefs += ",";
                typedefs += jstr(n) + ":" + jstr(Em.canonStr(TD->getUnderlyingType()));
                // typedef struct {...} x; the RecordDecl is a sibling decl
            } else if (auto *VD = dyn_cast<VarDecl>(D)) {
                if (sys)
                    continue;
                if (!VD->hasGlobalStorage())
                    continue;
                std::string n = VD->getNameAsString();
                const VarDecl *Def = VD->getDefinition();
                bool isDef = VD->isThisDeclarationADefinition() != VarDecl::DeclarationOnly;
                std::string key = n + (isDef ? "#def" : "#decl");
                if (seenGlobal.count(key))
                    continue;
                seenGlobal.insert(key);
                (void)Def;
                if (!globals.empty())
                    globals += ",\n";
                QualType T = VD->getType();
                bool isConst = T.isConstQualified() || (T->isArrayType() && Ctx.getBaseElementType(T).isConstQualified());
                globals += "{\"name\":" + jstr(n) + ",\"file\":" + jstr(file) + ",\"t\":" + jstr(Em.typeStr(T)) + ",\"ct\":" + jstr(Em.canonStr(T)) + ",\"const\":" + (isConst ? "true" : "false") + ",\"static\":" + (VD->getStorageClass() == SC_Static ? "true" : "false") + ",\"def\":" + (isDef ? "true" : "false") + ",\"l\":" + Em.locJson(VD->getLocation());
                if (VD->hasInit() && isDef)
                    globals += ",\"init\":" + Em.initTreeJson(VD);
                globals += "}";
            } else if (auto *FD = dyn_cast<FunctionDecl>(D)) {
                if (sys)
                    continue;
                std::string n = FD->getNameAsString();
                if (FD->doesThisDeclarationHaveABody()) {
                    if (seenFn.count(n))
                        continue;
                    seenFn.insert(n);
                    if (!funcs.empty())
                        funcs += ",\n";
                    funcs += Em.functionJson(FD);
                    // static locals
                    struct V {
                        std::vector<const VarDecl *> &out;
                        void walk(const Stmt *S)
                        {
                            if (!S)
                                return;
                            if (auto *DS = dyn_cast<DeclStmt>(S))
                                for (auto *DD : DS->decls())
                                    if (auto *X = dyn_cast<VarDecl>(DD))
                                        if (X->isStaticLocal())
                                            out.push_back(X);
                            for (auto *C : S->children())
                                walk(C);
                        }
                    } v{ staticLocals };
                    v.walk(FD->getBody());
                    for (auto *X : staticLocals) {
                        std::string key = FD->getNameAsString() + "." + X->getNameAsString();
                        if (seenGlobal.count(key))
                            continue;
                        seenGlobal.insert(key);
                        if (!globals.empty())
                            globals += ",\n";
                        QualType T = X->getType();
                        bool isConst = T.isConstQualified() || (T->isArrayType() && Ctx.getBaseElementType(T).isConstQualified());
                        globals += "{\"name\":" + jstr(X->getNameAsString()) + ",\"infunc\":" + jstr(FD->getNameAsString()) + ",\"file\":" + jstr(Em.fileOf(X->getLocation())) + ",\"t\":" + jstr(Em.typeStr(T)) + ",\"ct\":" + jstr(Em.canonStr(T)) + ",\"const\":" + (isConst ? "true" : "false") + ",\"static\":true,\"def\":true,\"l\":" + Em.locJson(X->getLocation()) + "}";
                    }
                    staticLocals.clear();
                }
                {
                    std::string key = n + "@" + file;
                    if (seenProto.count(key))
                        continue;
                    seenProto.insert(key);
                    if (!protos.empty())
                        protos += ",\n";
                    protos += "{\"name\":" + jstr(n) + ",\"file\":" + jstr(file) + ",\"l\":" + Em.locJson(FD->getLocation()) + ",\"ret\":" + jstr(Em.typeStr(FD->getReturnType())) + ",\"cret\":" + jstr(Em.canonStr(FD->getReturnType())) + ",\"static\":" + (FD->getStorageClass() == SC_Static ? "true" : "false") + ",\"hasbody\":" + (FD->doesThisDeclarationHaveABody() ? "true" : "false") + ",\"params\":[";
                    bool fp = true;
                    for (auto *P : FD->parameters()) {
                        if (!fp)
                            protos += ",";
                        fp = false;
                        protos += "[" + jstr(P->getNameAsString()) + "," + jstr(Em.typeStr(P->getType())) + "," + jstr(Em.canonStr(P->getType())) + "]";
                    }
                    protos += "]}";
                }
            }
        }

        std::error_code EC;
        llvm::raw_fd_ostream OS(g_out, EC);
        if (EC) {
            llvm::errs() << "ssfacts: cannot write " << g_out << "\n";
            exit(3);
        }
        OS << "{\"unit\":" << jstr(Em.MainFile) << ",\n\"records\":{" << recs << "},\n\"enums\":{" << enums << "},\n\"typedefs\":{" << typedefs << "},\n\"globals\":[" << globals << "],\n\"protos\":[" << protos << "],\n\"functions\":[" << funcs << "]}\n";
    }
};

class Action : public ASTFrontendAction {
public:
    std::unique_ptr<ASTConsumer> CreateASTConsumer(CompilerInstance &, llvm::StringRef) override
    {
        return std::make_unique<Consumer>();
    }
};

} // namespace

int main(int argc, const char **argv)
{
    if (argc < 4) {
        llvm::errs() << "usage: ssfacts <out.json> <source.c> -- <flags>\n";
        return 2;
    }
    g_out = argv[1];
    std::string src = argv[2];
    std::vector<std::string> flags;
    int i = 3;
    if (std::string(argv[i]) == "--")
        i++;
    for (; i < argc; i++)
        flags.push_back(argv[i]);
    tooling::FixedCompilationDatabase DB(".", flags);
    tooling::ClangTool Tool(DB, { src });
    int rc = Tool.run(tooling::newFrontendActionFactory<Action>().get());
    return rc;
}
