#!/bin/sh
# runs the quick tier of every check; non-zero if any does not answer 0
cd /verif || exit 2
bad=0
for p in C01 C02 C03 C04 C05 C06 C07 C08 C09 C10 C11 C12 C13 C14 C15 C16 C17 C18 C19 C20; do
  ./check $p > /tmp/precommit_$p.txt 2>&1 || { echo "$p FAILS ($?)"; bad=1; }
  rm -f /tmp/precommit_$p.txt
done
[ $bad = 0 ] && echo "all 20 checks answer 0"
exit $bad
