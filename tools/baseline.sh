#!/bin/sh
# Builds /repo (no hooks exist; guard off by construction) and runs the pinned
# suite; exits 0 iff the 30 baseline-stable tests all pass.
set -u
cd /repo || exit 2
cmake -G Ninja -S . -B _build -DCMAKE_BUILD_TYPE=RelWithDebInfo -DCMAKE_C_FLAGS=-Wno-error >/dev/null || exit 2
cmake --build _build >/dev/null || exit 2
cmake --build _build --target check >/dev/null 2>&1
ctest --test-dir _build -j8 --timeout 900 > _build/ctest.out 2>&1
fail=0
for t in lcase1 lcase2 lcase3 strcmp1 strcmp2 strcmp3 test_acmod test_acmod_grow test_add_words test_bitvec test_byteorder test_ckd_alloc test_dict2pid test_dict test_endpointer test_err test_feat_fe test_feat_live test_fsg test_hash_iter test_jsgf test_listelem_alloc test_log_shifted test_ptm_mgau test_s3file test_subvq test_word_align ucase1 ucase2 ucase3; do
  if ! grep -Eq "Test +#[0-9]+: $t \.+ +Passed" _build/ctest.out; then echo "NOT PASSED: $t"; fail=1; fi
done
[ $fail = 0 ] && echo "baseline: 30/30 pinned tests pass"
exit $fail
