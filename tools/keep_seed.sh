#!/bin/sh
# keep_seed.sh <prop> <n> <needs...>   copies a verified seed into /verif/seeded/<prop>-<n>/
P=$1; N=$2; shift 2
S=/tmp/seed/$P/out/$N; D=/verif/seeded/$P-$N
mkdir -p $D
cp $S/patch.diff $D/; [ -f $S/demo.c ] && cp $S/demo.c $D/; [ -f $S/demo.sh ] && cp $S/demo.sh $D/; cp $S/notes.md $D/
python3 - "$P" "$N" "$D" "$*" <<'PY'
import json,sys,subprocess
P,N,D,needs=sys.argv[1:5]
base=subprocess.run(["git","-C","/tmp/seed/"+P,"rev-parse","HEAD"],capture_output=True,text=True).stdout.strip()
files=[l[6:] for l in open(D+"/patch.diff") if l.startswith("+++ b/")]
json.dump({"id":"%s-%s"%(P,N),"property":P,"breaks":"see notes.md","needs_to_manifest":needs,"files":[f.strip() for f in files],
 "base_commit":base,"author":"independent sub-agent given only the property text",
 "confirmed":"tools/verify_seed.sh in the scratch worktree: patch applies, library builds, 30/30 pinned tests pass with it, demo exits 0 on the unchanged tree and non-zero with the patch",
 "detected_by":None},open(D+"/meta.json","w"),indent=1)
PY
echo kept $D
