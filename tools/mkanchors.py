#!/usr/bin/env python3
"""Records, from /repo's current source, the names the rules were written
against: per function the parameters and locals in declaration order with
their types, per record the fields in order with their types
(/verif/anchors/names.json).  At run time sslint/prog.py uses this table to see
a *renamed* local, parameter or field under its recorded name, so that a pure
rename - a behaviour-preserving edit - neither raises an alarm nor loses an
anchor.  Regenerate only when the rules are (re)confirmed against a new tree."""
import json, os, sys
V = os.path.dirname(os.path.dirname(os.path.abspath(__file__)))
sys.path.insert(0, V)
os.environ["SS_NO_ANCHORS"] = "1"
from sslint.prog import Program

P = Program("NDEBUG")
P.load_all()
out = {"functions": {}, "records": {}}
for f in P.functions():
    if not f.file.startswith("/repo/"):
        continue
    seq = [[p[0], p[3]] for p in f.params]
    seen = set()
    for nd in f.nodes:
        if nd["k"] == "Var" and nd["decl"] not in seen:
            seen.add(nd["decl"])
            seq.append([nd["name"], nd.get("ct", nd.get("t", ""))])
    out["functions"]["%s:%s" % (f.unit, f.name)] = seq
for name, r in P.records.items():
    out["records"][name] = [[x[0], x[2]] for x in r["fields"]]
json.dump(out, open(os.path.join(V, "anchors", "names.json"), "w"), indent=0, sort_keys=True)
print("%d functions, %d records" % (len(out["functions"]), len(out["records"])))
