#!/usr/bin/env python3
"""Regenerates the machine-derived tables of DESIGN.md section 10 (between the
BEGIN/END GENERATED markers) from the registry, the evidence files of the last
run, known_findings.json, the seeded changes and /repo's fix commits."""
import json, os, re, subprocess, sys, glob
V = os.path.dirname(os.path.dirname(os.path.abspath(__file__)))
sys.path.insert(0, V)
from sslint.registry import CHECKS

out = []
out.append("### 10.1 Rules per property, as implemented (from the evidence of the last run on the repaired tree)\n")
out.append("Instance counts are quick-tier obligations on the current tree; `floor` is the count below which the check exits 2.\n")
for pid in sorted(CHECKS):
    ev = json.load(open(os.path.join(V, "evidence", pid + ".json")))
    cov = ev["coverage"]
    n = cov["obligations"] if ev["tier"] == "quick" else cov["obligations"] // 2
    out.append("**%s** — %d rules, %d obligations (%d known findings), %d functions analysed.\n" % (pid, len(cov["rules"]), n, cov["known_findings"] if ev["tier"] == "quick" else cov["known_findings"] // 2, cov["functions_analysed"]))
    for rid, r in cov["rules"].items():
        k = 1 if ev["tier"] == "quick" else 2
        out.append("* `%s` (n=%d, floor %d): %s" % (rid, r["instances"] // k, r["floor"], r["text"]))
    out.append("")

out.append("### 10.2 Repairs of genuine defects (`fix:` commits in /repo, oldest first)\n")
kf = json.load(open(os.path.join(V, "known_findings.json")))["findings"]
bycommit = {}
for f in kf:
    if f.get("status") == "fixed":
        bycommit.setdefault(f["commit"], []).append(f)
log = subprocess.run(["git", "-C", "/repo", "log", "--format=%h %s"], capture_output=True, text=True).stdout.splitlines()
out.append("| commit | repair | reported by (property: rule instances) |")
out.append("|---|---|---|")
for l in reversed(log):
    h, s = l.split(" ", 1)
    if not s.startswith("fix:"):
        continue
    fs = bycommit.get(h, [])
    by = "; ".join(sorted({"%s: %s `%s`" % (f["property"], f["rule"], f["key"][:48]) for f in fs})) or "—"
    out.append("| %s | %s | %s |" % (h, s[5:].replace("|", "/"), by.replace("|", "/")))
out.append("")

out.append("### 10.3 Known findings (genuine, recorded, not repaired)\n")
known = [f for f in kf if f.get("status", "known") == "known"]
out.append("%d entries in `known_findings.json` with status `known`; each is matched by (property, rule, key) and printed as a `KNOWN-FINDING:` line.\n" % len(known))
groups = {}
for f in known:
    groups.setdefault((f["property"], f["rule"], f["key"].split(":")[0]), []).append(f)
out.append("| property | rule | function | entries | example |")
out.append("|---|---|---|---|---|")
for (p, r, fn), fs in sorted(groups.items()):
    out.append("| %s | %s | `%s` | %d | %s |" % (p, r, fn, len(fs), fs[0]["what"][:150].replace("|", "/")))
out.append("")

out.append("### 10.4 Seeded changes and the checks that catch them\n")
out.append("Each change was written by a fresh sub-agent that saw only the property text and a scratch worktree, and was confirmed (applies, builds, 30 pinned tests pass, demonstration fails with it and passes without) before it was kept under `seeded/`.\n")
out.append("| change | file(s) | needs to manifest | caught by |")
out.append("|---|---|---|---|")
for d in sorted(glob.glob(os.path.join(V, "seeded", "*", "meta.json"))):
    m = json.load(open(d))
    det = m.get("detected_by")
    if det:
        by = "; ".join("%s %s" % (x["check"], ", ".join(x["rules"])) for x in det)
    elif m.get("analysis_incomplete") and m["property"] in m["analysis_incomplete"]:
        by = "answers 2 (the change moves code into a new function: the disagreement is reported as analysis-incomplete, see restructured functions in section 10)"
    else:
        by = "**not caught**"
    out.append("| %s | %s | %s | %s |" % (m["id"], ", ".join(os.path.basename(f) for f in m["files"]), str(m.get("needs_to_manifest", ""))[:140].replace("|", "/"), by))
out.append("")

text = "\n".join(out)
p = os.path.join(V, "DESIGN.md")
s = open(p).read()
b, e = "<!-- BEGIN GENERATED -->", "<!-- END GENERATED -->"
if b in s and e in s:
    s = s[:s.index(b) + len(b)] + "\n" + text + "\n" + s[s.index(e):]
    open(p, "w").write(s)
    print("DESIGN.md tables regenerated (%d lines)" % len(out))
else:
    print("markers not found", file=sys.stderr)
    sys.exit(1)
