#!/usr/bin/env python3
"""Runs every registered check (quick tier) against behaviour-preserving edits
of /repo: each patch is applied to its own scratch copy (removed afterwards)
and every check must answer 0.  Exit 1 = a check raised a VIOLATION on code
where the property holds (a false alarm to be corrected in the machinery);
exit 2 (analysis incomplete: an anchor the rule needs was moved away) is
reported separately - it is not a verdict.
usage: tools/run_benign.py [--dir DIR] [id ...] [--own] [-j N]
  DIR defaults to /verif/benign; each edit is DIR/<id>/patch.diff"""
import json, os, shutil, subprocess, sys, tempfile
from concurrent.futures import ThreadPoolExecutor
V = os.path.dirname(os.path.dirname(os.path.abspath(__file__)))
sys.path.insert(0, V)
from sslint import registry


def one(args):
    d, eid, props, scratch = args
    base = os.path.join(scratch, eid)
    os.makedirs(base)
    for s in ("src", "include"):
        shutil.copytree(os.path.join("/repo", s), os.path.join(base, s))
    for f in ("CMakeLists.txt", "config.h.in"):
        shutil.copy(os.path.join("/repo", f), base)
    r = subprocess.run(["patch", "-p1", "-s", "--no-backup-if-mismatch", "-i", os.path.join(d, eid, "patch.diff")], cwd=base, capture_output=True, text=True)
    if r.returncode != 0:
        shutil.rmtree(base, ignore_errors=True)
        return eid, None, (r.stdout + r.stderr).strip()[:200]
    out = []
    ev = os.path.join(base, "_ev")
    for p in props:
        rr = subprocess.run([os.path.join(V, "check"), p], capture_output=True, text=True, env=dict(os.environ, SS_REPO=base, SS_EVIDENCE=ev), cwd=V)
        if rr.returncode != 0:
            lines = [l.strip() for l in rr.stdout.splitlines() if l.startswith("  rule ") or l.startswith("ANALYSIS-INCOMPLETE")]
            out.append((p, rr.returncode, lines[:int(os.environ.get("BENIGN_LINES", "6"))]))
    shutil.rmtree(base, ignore_errors=True)
    return eid, out, ""


def main():
    av = sys.argv[1:]
    d = os.path.join(V, "benign")
    j = 4
    if "--dir" in av:
        i = av.index("--dir"); d = av[i + 1]; del av[i:i + 2]
    if "-j" in av:
        i = av.index("-j"); j = int(av[i + 1]); del av[i:i + 2]
    own = "--own" in av
    ids = [a for a in av if not a.startswith("--")]
    edits = sorted(e for e in os.listdir(d) if os.path.exists(os.path.join(d, e, "patch.diff")))
    if ids:
        edits = [e for e in edits if e in ids]
    scratch = tempfile.mkdtemp(prefix="ss_benign_")
    bad = inc = 0
    known = {}
    kp = os.path.join(d, "KNOWN_LIMITATIONS.json")
    if os.path.exists(kp):
        known = json.load(open(kp))["edits"]
    nknown = 0
    try:
        jobs = []
        for e in edits:
            props = sorted(registry.CHECKS)
            if own:
                props = [p for p in props if e.startswith(p)]
            jobs.append((d, e, props, scratch))
        with ThreadPoolExecutor(j) as ex:
            for eid, out, msg in ex.map(one, jobs):
                if out is None:
                    print("%-10s patch does not apply: %s" % (eid, msg))
                    continue
                if not out:
                    print("%-10s silent" % eid)
                for p, rc, lines in out:
                    if eid in known and p in known[eid]["checks"]:
                        nknown += 1
                        print("%-10s known limitation of the checker: %s answers %d (%s)" % (eid, p, rc, known[eid]["why"]))
                        continue
                    if rc == 1:
                        bad += 1
                    else:
                        inc += 1
                    print("%-10s %s %s" % (eid, "FALSE-ALARM" if rc == 1 else "incomplete", p))
                    for l in lines:
                        print("             " + l[:300])
    finally:
        shutil.rmtree(scratch, ignore_errors=True)
    print("%d edits, %d false alarms, %d incomplete, %d known limitations" % (len(edits), bad, inc, nknown))
    sys.exit(1 if (bad or inc) else 0)


if __name__ == "__main__":
    main()
