#!/bin/sh
# verify_seed.sh <worktree> <outdir-with-patch.diff-and-demo.c>
# Confirms in the scratch worktree: patch applies; library builds; the 30
# pinned tests pass with it; demo exits non-zero with it and zero without.
set -u
W=$1; O=$2
cd "$W" || exit 2
git checkout -q -- . || exit 2
PIN="lcase1 lcase2 lcase3 strcmp1 strcmp2 strcmp3 test_acmod test_acmod_grow test_add_words test_bitvec test_byteorder test_ckd_alloc test_dict2pid test_dict test_endpointer test_err test_feat_fe test_feat_live test_fsg test_hash_iter test_jsgf test_listelem_alloc test_log_shifted test_ptm_mgau test_s3file test_subvq test_word_align ucase1 ucase2 ucase3"
build() { cmake --build _build >/dev/null 2>&1 && cmake --build _build --target check >/dev/null 2>&1; cmake --build _build >/dev/null 2>&1; }
demo() {
  if [ -f "$O/demo.c" ]; then
    cc -g -O1 -w ${DEMO_CFLAGS:-} -Iinclude -I_build -Isrc -I_build/tests -Itests -o "$O/demo.bin" "$O/demo.c" _build/libsoundswallower.a -lm 2>"$O/demo.cc.log" || { echo "demo does not compile"; cat "$O/demo.cc.log" | head; return 99; }
    ( cd "$W" && timeout 600 "$O/demo.bin" >"$O/demo.out" 2>&1 ); return $?
  else
    ( cd "$W" && timeout 600 sh "$O/demo.sh" >"$O/demo.out" 2>&1 ); return $?
  fi
}
[ -d _build ] || cmake -G Ninja -S . -B _build -DCMAKE_BUILD_TYPE=RelWithDebInfo -DCMAKE_C_FLAGS=-Wno-error >/dev/null
build
demo; base=$?
echo "demo on unchanged tree: exit $base"
git apply "$O/patch.diff" || { echo "patch does not apply"; exit 2; }
build || { echo "does not build with patch"; git checkout -q -- .; exit 2; }
ctest --test-dir _build -j8 --timeout 900 > "$O/ctest_with_patch.out" 2>&1
fail=0
for t in $PIN; do grep -Eq "Test +#[0-9]+: $t \.+ +Passed" "$O/ctest_with_patch.out" || { echo "pinned test fails with patch: $t"; fail=1; }; done
[ $fail = 0 ] && echo "30/30 pinned tests pass with patch"
demo; with=$?
echo "demo with patch: exit $with"
git checkout -q -- .
build
rm -f "$O/demo.bin"
if [ "$base" = 0 ] && [ "$with" != 0 ] && [ $fail = 0 ]; then echo "SEED-OK"; exit 0; else echo "SEED-REJECTED"; exit 1; fi
