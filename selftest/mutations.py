"""Scratch-copy mutations used to test the checks both ways."""
MUTATIONS = []

def M(prop, name, file, old, new, rule=None, kind="break", first=False):
    """first=True: the pattern may occur several times (twin functions); only its first occurrence is edited"""
    MUTATIONS.append({"prop": prop, "name": name, "file": file, "old": old, "new": new, "rule": rule, "kind": kind, "first": first})

EP = "src/ps_endpointer.c"
# ---- C15 ----------------------------------------------------------------------
M("C15", "end_stream: trailing frame whenever the queue is empty", EP, "    if (ep_empty(ep) && ep->speech_end == ep->qstart_time) {", "    if (ep_empty(ep)) {", "PAIR.end_stream")
M("C15", "ep: revert index fix", EP, """        do {
            count += ep->is_speech[i++];
            i = i % ep->maxlen;
        } while (i != end);""", """        count = ep->is_speech[i++];
        while (i != end) {
            count += ep->is_speech[i++];
            i = i % ep->maxlen;
        }""", "RING.index")
M("C15", "ep: push drops modulo", EP, "int i = (ep->pos + ep->n) % ep->maxlen;", "int i = (ep->pos + ep->n);", "RING.index")
M("C15", "ep: pop forgets clock", EP, """        return NULL;
    ep->qstart_time += ep->frame_length;
    if (out_is_speech)""", """        return NULL;
    if (out_is_speech)""", "PAIR.clock")
M("C15", "ep: push full forgets clock", EP, """        ep->qstart_time += ep->frame_length;
        ep->pos = (ep->pos + 1) % ep->maxlen;
    } else""", """        ep->pos = (ep->pos + 1) % ep->maxlen;
    } else""", "PAIR.clock")
M("C15", "ep: start threshold non-strict", EP, "if (speech_count > ep->start_frames) {", "if (speech_count >= ep->start_frames) {", "CENSUS.in_speech")
M("C15", "ep: end threshold uses start_frames", EP, "if (speech_count < ep->end_frames) {", "if (speech_count < ep->start_frames) {", "CENSUS.in_speech")
M("C15", "ep: speech_start from timestamp", EP, "ep->speech_start = ep->qstart_time;", "ep->speech_start = ep->timestamp;", "CENSUS.in_speech")
M("C15", "ep: pop reads after advance", EP, """    pcm = ep->buf + (ep->pos * ep->frame_size);
    ep->pos = (ep->pos + 1) % ep->maxlen;""", """    ep->pos = (ep->pos + 1) % ep->maxlen;
    pcm = ep->buf + (ep->pos * ep->frame_size);""", "PAIR.pop")
M("C15", "ep: linearize flags moved short", EP, """    memmove(ep->is_speech, ep->is_speech + ep->pos,
            sizeof(*ep->is_speech) * (ep->maxlen - ep->pos));""", """    memmove(ep->is_speech, ep->is_speech + ep->pos,
            sizeof(*ep->is_speech) * (ep->maxlen - ep->pos - 1));""", "TWIN.linearize")
M("C15", "ep: timestamp only when speech", EP, """    ep->timestamp += ep->frame_length;
    speech_count""", """    if (is_speech) ep->timestamp += ep->frame_length;
    speech_count""", "PAIR.timestamp")
M("C15", "ep: end_stream counts non-speech", EP, """        if (is_speech) {
            if (out_nsamp)
                *out_nsamp += ep->frame_size;""", """        if (1) {
            if (out_nsamp)
                *out_nsamp += ep->frame_size;""", "PAIR.end_stream")
M("C15", "ep: trailing copy one frame late", EP, "memcpy(ep->buf + ep->pos * ep->frame_size,\n                   frame", "memcpy(ep->buf + (ep->pos + 1) * ep->frame_size,\n                   frame", "RING.region")
M("C15", "ep: count from pos+1", EP, "int i = ep->pos, end = (ep->pos + ep->n) % ep->maxlen;", "int i = (ep->pos + 1) % ep->maxlen, end = (ep->pos + ep->n) % ep->maxlen;", "PROV.count-range")
# benign
M("C15", "ep benign: temp for tail index", EP, "    int i = (ep->pos + ep->n) % ep->maxlen;\n    int16 *dest", "    int tail = ep->pos + ep->n;\n    int i = tail % ep->maxlen;\n    int16 *dest", kind="benign")
M("C15", "ep benign: commute", EP, "ep->pos = (ep->pos + 1) % ep->maxlen;\n    ep->n--;", "ep->n--;\n    ep->pos = (1 + ep->pos) % ep->maxlen;", kind="benign")
M("C15", "ep benign: pop clock after advance", EP, """    ep->qstart_time += ep->frame_length;
    if (out_is_speech)
        *out_is_speech = ep->is_speech[ep->pos];
    pcm = ep->buf + (ep->pos * ep->frame_size);
    ep->pos = (ep->pos + 1) % ep->maxlen;""", """    if (out_is_speech)
        *out_is_speech = ep->is_speech[ep->pos];
    pcm = ep->buf + (ep->pos * ep->frame_size);
    ep->pos = (ep->pos + 1) % ep->maxlen;
    ep->qstart_time += ep->frame_length;""", kind="benign")

HT = "src/hash_table.c"
# ---- C20 ----------------------------------------------------------------------
M("C20", "ht: identical key pointer accepted without comparison", "src/hash_table.c", """        while (entry && ((entry->len != len) || (keycmp_case(entry, key) != 0)))""", """        while (entry && entry->key != key && ((entry->len != len) || (keycmp_case(entry, key) != 0)))""", "GUARD.len-first", first=True)
M("C20", "ht: inuse++ only for chain", HT, """        new->next = cur->next;
        cur->next = new;
    }
    ++h->inuse;""", """        new->next = cur->next;
        cur->next = new;
        ++h->inuse;
    }""", "PAIR.inuse")
M("C20", "ht: delete head forgets val copy", HT, "            prev->val = entry->val;\n", "", "TABLE.headcopy")
M("C20", "ht: delete head forgets len copy", HT, "            prev->len = entry->len;\n", "", "TABLE.headcopy")
M("C20", "ht: delete chain free before unlink", HT, """        prev->next = entry->next;
        ckd_free(entry);
    }""", """        ckd_free(entry);
        prev->next = entry->next;
    }""", "TYPESTATE.release")
M("C20", "ht: delete head clears key with chain", HT, "        if (entry->next) { /* There is a next entry, great, copy it. */", "        if (entry->next && entry->next->next) { /* There is a next entry, great, copy it. */", "GUARD.head-null")
M("C20", "ht: lookup drops len test (nocase)", HT, """    if (h->nocase) {
        while (entry && ((entry->len != len) || (keycmp_nocase(entry, key) != 0)))
            entry = entry->next;
    } else {""", """    if (h->nocase) {
        while (entry && ((keycmp_nocase(entry, key) != 0)))
            entry = entry->next;
    } else {""", "GUARD.len-first")
M("C20", "ht: keycmp_nocase folds one side", HT, "        c2 = *(key++);\n        c2 = UPPER_CASE(c2);", "        c2 = *(key++);", "GUARD.len-first")
M("C20", "ht: replace_bkey inserts", HT, """    ckd_free(str);

    return (enter(h, hash, key, len, val, 1));""", """    ckd_free(str);

    return (enter(h, hash, key, len, val, 0));""", "TWIN.wrappers")
M("C20", "ht: delete_bkey hashes raw key", HT, """    str = makekey((uint8 *)key, len, NULL);
    hash = key2hash(h, str);
    ckd_free(str);

    return (delete (h, hash, key, len));""", """    str = makekey((uint8 *)key, len, NULL);
    hash = key2hash(h, key);
    ckd_free(str);

    return (delete (h, hash, key, len));""", "TWIN.wrappers")
M("C20", "ht: iter forgets ++idx", HT, """        itor->ent = itor->ht->table + itor->idx;
        /* Increase idx for the next time around. */
        ++itor->idx;""", """        itor->ent = itor->ht->table + itor->idx;""", "TWIN.traversal")
M("C20", "ht: tolist skips chain count", HT, """            for (e = e->next; e; e = e->next) {
                g = glist_add_ptr(g, (void *)e);
                j++;
            }
        }
    }

    if (count)""", """            for (e = e->next; e; e = e->next) {
                g = glist_add_ptr(g, (void *)e);
            }
        }
    }

    if (count)""", "TWIN.traversal")
M("C20", "ht: chain insert order swapped", HT, """        new->next = cur->next;
        cur->next = new;""", """        cur->next = new;
        new->next = cur->next;""", "PROV.insert")
M("C20", "ht: nocase hash not folded", HT, "            c = UPPER_CASE(c);\n            hash += c << s;", "            hash += c << s;", "GUARD.len-first")
M("C20", "ht: empty memset before chain", HT, """        for (e = h->table[i].next; e; e = e2) {
            e2 = e->next;
            ckd_free((void *)e);
        }
        memset(&h->table[i], 0, sizeof(h->table[i]));""", """        memset(&h->table[i], 0, sizeof(h->table[i]));
        for (e = h->table[i].next; e; e = e2) {
            e2 = e->next;
            ckd_free((void *)e);
        }""", "GUARD.head-null")
M("C20", "ht: existing key modified without replace", HT, """        if (replace) {
            /* Replace the pointer if replacement is requested,
             * because this might be a different instance of the same
             * string (this verges on magic, sorry) */
            cur->key = key;
            cur->val = val;
        }""", """        cur->key = key;
        if (replace) {
            cur->val = val;
        }""", "PROV.insert")
M("C20", "ht benign: whole struct copy", HT, """            prev->key = entry->key;
            prev->len = entry->len;
            prev->val = entry->val;
            prev->next = entry->next;
            ckd_free(entry);""", """            *prev = *entry;
            prev->next = entry->next;
            ckd_free(entry);""", kind="benign")
M("C20", "ht benign: inc spelled differently", HT, "    ++h->inuse;\n\n    return val;", "    h->inuse++;\n\n    return val;", kind="benign")

LM = "src/logmath.c"
# ---- C19 ----------------------------------------------------------------------
M("C19", "lm: drop upper bound", LM, "    if ((size_t)d >= t->table_size) {", "    if ((size_t)d > t->table_size) {", "GUARD.table-read")
M("C19", "lm: drop d<0 test", LM, """    if (d < 0) {
        /* Some kind of overflow has occurred, fail gracefully. */
        return r;
    }
""", "", "GUARD.table-read")
M("C19", "lm: r is the smaller", LM, """        d = (logb_y - logb_x);
        r = logb_y;""", """        d = (logb_y - logb_x);
        r = logb_x;""", "TWIN.symmetry")
M("C19", "lm: zero test asymmetric", LM, """    if (logb_y <= lmath->zero)
        return logb_x;""", """    if (logb_y < lmath->zero)
        return logb_x;""", "TWIN.symmetry")
M("C19", "lm: exact fallback before the zero tests", LM, """    /* handle 0 + x = x case. */
    if (logb_x <= lmath->zero)""", """    if (t->table == NULL)
        return logmath_add_exact(lmath, logb_x, logb_y);
    /* handle 0 + x = x case. */
    if (logb_x <= lmath->zero)""", "TWIN.symmetry")
M("C19", "lm: case 2 read as uint8", LM, "        return r + (((uint16 *)t->table)[d]);", "        return r + (((uint8 *)t->table)[d]);", "TABLE.width")
M("C19", "lm: subtract entry", LM, "        return r + (((uint32 *)t->table)[d]);", "        return r - (((uint32 *)t->table)[d]);", "ORDER.monotone")
M("C19", "lm: log no guard", LM, """    if (p <= 0) {
        return lmath->zero;
    }""", """    if (p < 0) {
        return lmath->zero;
    }""", "TABLE.conversions")
M("C19", "lm: ln_to_log uses log10 const", LM, """logmath_ln_to_log(logmath_t *lmath, float64 log_p)
{
    return (int)(log_p * lmath->inv_log_of_base) >> lmath->t.shift;""", """logmath_ln_to_log(logmath_t *lmath, float64 log_p)
{
    return (int)(log_p * lmath->inv_log10_of_base) >> lmath->t.shift;""", "TABLE.conversions")
M("C19", "lm: fill pass rounds differently", LM, """        int32 k = (int32)(lobyx + 0.5 * (1 << shift)) >> shift; /* Round to shift */
        uint32 prev = 0;""", """        int32 k = (int32)(lobyx) >> shift; /* Round to shift */
        uint32 prev = 0;""", "TWIN.table-passes")
M("C19", "lm: table_size off by one", LM, "    lmath->t.table_size = i + 1;", "    lmath->t.table_size = i + 2;", "TABLE.width")
M("C19", "lm: width threshold 3 bytes", LM, "    else if (maxyx < 65536)\n        width = 2;", "    else if (maxyx < 65536)\n        width = 3;", "TABLE.width")
M("C19", "lm benign: swap operands", LM, "        return r + (((uint8 *)t->table)[d]);", "        return (((uint8 *)t->table)[d]) + r;", kind="benign")

FS = "src/fsg_search.c"
FH = "src/fsg_history.c"
# ---- C01 ----------------------------------------------------------------------
M("C01", "add_word: filler range extended at run time", "src/decoder.c", """    /* Now we also have to add it to dict2pid. */
    dict2pid_add_word(d->d2p, wid);
""", """    if (wid > dict_filler_end(d->dict) && np == 1)
        dict_filler_end(d->dict) = wid;
    /* Now we also have to add it to dict2pid. */
    dict2pid_add_word(d->d2p, wid);
""", "CENSUS.O16-filler-range")
M("C01", "null_prop: from_state for to_state", FS, """        s = l ? fsg_link_to_state(l) : fsg_model_start_state(fsg);""", """        s = l ? fsg_link_from_state(l) : fsg_model_start_state(fsg);""", "PROV.O1-null-prop")
M("C01", "null_prop: pred is grandparent", FS, """                                      bpidx,
                                      fsg_hist_entry_lc(hist_entry),""", """                                      fsg_hist_entry_pred(hist_entry),
                                      fsg_hist_entry_lc(hist_entry),""", "PROV.O1-null-prop")
M("C01", "null_prop: word arcs propagate", FS, """            if (fsg_link_wid(l) != -1)
                continue;""", """            if (fsg_link_wid(l) == -2)
                continue;""", "PROV.O1-null-prop")
M("C01", "word_trans: roots of from_state", FS, """        d = l ? fsg_link_to_state(l) : fsg_model_start_state(fsgs->fsg);""", """        d = l ? fsg_link_from_state(l) : fsg_model_start_state(fsgs->fsg);""", "PROV.O2-word-trans")
M("C01", "word_trans: history off by one", FS, "hmm_enter(&root->hmm, newscore, bpidx, nf);", "hmm_enter(&root->hmm, newscore, bpidx - 1, nf);", "PROV.O2-word-trans")
M("C01", "word_trans: rc test dropped", FS, "if ((root->ctxt.bv[lc >> 5] & (1 << (lc & 0x001f))) && (hist_entry->rc.bv[rc >> 5] & (1 << (rc & 0x001f)))) {", "if ((root->ctxt.bv[lc >> 5] & (1 << (lc & 0x001f)))) {", "PROV.O2-word-trans")
M("C01", "pnode_trans: in_history passed", FS, "hmm_enter(&child->hmm, newscore, hmm_out_history(hmm), nf);", "hmm_enter(&child->hmm, newscore, hmm_in_history(hmm), nf);", "PROV.O3-pnode-trans")
M("C01", "pnode_trans: siblings of pnode entered", FS, """    for (child = fsg_pnode_succ(pnode);
         child; child = fsg_pnode_sibling(child)) {""", """    for (child = fsg_pnode_sibling(pnode);
         child; child = fsg_pnode_sibling(child)) {""", "PROV.O3-pnode-trans")
M("C01", "find_exit: final test dropped", FS, """            if ((!final)
                || fsg_link_to_state(fl) == fsg_model_final_state(fsg)) {
                bestscore = score;
                besthist = bpidx;
            }""", """            {
                bestscore = score;
                besthist = bpidx;
            }""", "GUARD.O7-final-state")
M("C01", "find_exit: start_state for final_state", FS, """                || fsg_link_to_state(fl) == fsg_model_final_state(fsg)) {""", """                || fsg_link_to_state(fl) == fsg_model_start_state(fsg)) {""", "GUARD.O7-final-state")
M("C01", "find_exit: tie branch ignores final", FS, """        if (score == bestscore && fsg_link_to_state(fl) == fsg_model_final_state(fsg)) {""", """        if (score == bestscore) {""", "GUARD.O7-final-state")
M("C01", "find_exit: no-exit returns 0-th", FS, """    if (besthist == -1) {
        E_ERROR("Final result does not match the grammar in frame %d\\n", frame_idx);
        return -1;
    }""", """    if (besthist == -1) {
        E_ERROR("Final result does not match the grammar in frame %d\\n", frame_idx);
        return fsg_history_n_entries(fsgs->history) - 1;
    }""", "GUARD.O7-final-state")
M("C01", "hyp: fill pass walks bp-1", FS, """        bp = fsg_hist_entry_pred(hist_entry);
        wid = fsg_link_wid(fl);
        if (wid < 0 || fsg_model_is_filler(fsgs->fsg, wid))
            continue;
        baseword = dict_basestr(dict,
                                dict_wordid(dict,
                                            fsg_model_word_str(fsgs->fsg, wid)));
        len = strlen(baseword);""", """        bp = bp - 1;
        wid = fsg_link_wid(fl);
        if (wid < 0 || fsg_model_is_filler(fsgs->fsg, wid))
            continue;
        baseword = dict_basestr(dict,
                                dict_wordid(dict,
                                            fsg_model_word_str(fsgs->fsg, wid)));
        len = strlen(baseword);""", "PROV.O8-backtrace")
M("C01", "history: pred stored wrong", FH, """    new_entry->pred = pred;
    new_entry->lc = lc;
    new_entry->rc = rc; /* Note""", """    new_entry->pred = pred > 0 ? pred - 1 : pred;
    new_entry->lc = lc;
    new_entry->rc = rc; /* Note""", "PROV.O9-entry-fields")
M("C01", "finish: final stays false", FS, "    fsgs->final = TRUE;", "    fsgs->final = FALSE;", "PROV.O11-final-flag")
M("C01", "step: word_trans before null_prop", FS, """    fsg_search_null_prop(fsgs);
    fsg_history_end_frame(fsgs->history);

    /*
     * Perform cross-word transitions; propagate each history entry across its
     * terminating state to the root nodes of the lextree attached to the state.
     */
    fsg_search_word_trans(fsgs);""", """    fsg_search_word_trans(fsgs);
    fsg_search_null_prop(fsgs);
    fsg_history_end_frame(fsgs->history);
""", "PROV.root-entry")
M("C01", "exit: history of wrong node", FS, """                              hmm_out_score(hmm),
                              hmm_out_history(hmm),
                              pnode->ci_ext, pnode->ctxt);""", """                              hmm_out_score(hmm),
                              hmm_in_history(hmm),
                              pnode->ci_ext, pnode->ctxt);""", "PROV.O4-word-exit")
M("C01", "benign: rename temp in word_trans", FS, """        d = l ? fsg_link_to_state(l) : fsg_model_start_state(fsgs->fsg);

        lc = fsg_hist_entry_lc(hist_entry);

        /* Transition to all root nodes attached to state d */
        for (root = fsg_lextree_root(fsgs->lextree, d);""", """        lc = fsg_hist_entry_lc(hist_entry);

        /* Transition to all root nodes attached to state d */
        for (root = fsg_lextree_root(fsgs->lextree, (l ? fsg_link_to_state(l) : fsg_model_start_state(fsgs->fsg)));""", kind="benign")
M("C01", "benign: find_exit reorder disjuncts", FS, """            if ((!final)
                || fsg_link_to_state(fl) == fsg_model_final_state(fsg)) {""", """            if (fsg_model_final_state(fsg) == fsg_link_to_state(fl) || !final) {""", kind="benign")

DC = "src/decoder.c"
AC = "src/acmod.c"
# ---- C03 ----------------------------------------------------------------------
M("C03", "seg_next: hands out one entry too many", "src/fsg_search.c", "    if (++itor->cur == itor->n_hist) {", "    if (++itor->cur > itor->n_hist) {", "PROV.S6-order")
M("C03", "seg: sf without +1", FS, "seg->sf = ph ? fsg_hist_entry_frame(ph) + 1 : 0;", "seg->sf = ph ? fsg_hist_entry_frame(ph) : 0;", "PROV.S1-times")
M("C03", "seg: ef from pred", FS, "seg->ef = fsg_hist_entry_frame(hist_entry);", "seg->ef = ph ? fsg_hist_entry_frame(ph) : 0;", "PROV.S1-times")
M("C03", "seg: clamp inverted", FS, "    if (seg->sf > seg->ef)\n        seg->sf = seg->ef;", "    if (seg->sf < seg->ef)\n        seg->sf = seg->ef;", "PROV.S1-times")
M("C03", "seg: ascr forgets lscr", FS, "seg->ascr = hist_entry->score - ph->score - seg->lscr;", "seg->ascr = hist_entry->score - ph->score;", "LIN.S2-score")
M("C03", "seg: ascr nopred double lscr", FS, "seg->ascr = hist_entry->score - seg->lscr;", "seg->ascr = hist_entry->score - seg->lscr - seg->lscr;", "LIN.S2-score")
M("C03", "seg: word from pred link", FS, "seg->word = fsg_model_word_str(fsgs->fsg, hist_entry->fsglink->wid);", "seg->word = fsg_model_word_str(fsgs->fsg, ph && ph->fsglink ? ph->fsglink->wid : hist_entry->fsglink->wid);", "PROV.S1-times")
M("C03", "hyp: fill pass keeps fillers", FS, """        if (wid < 0 || fsg_model_is_filler(fsgs->fsg, wid))
            continue;
        baseword = dict_basestr(dict,
                                dict_wordid(dict,
                                            fsg_model_word_str(fsgs->fsg, wid)));
        len = strlen(baseword);""", """        if (wid < 0)
            continue;
        baseword = dict_basestr(dict,
                                dict_wordid(dict,
                                            fsg_model_word_str(fsgs->fsg, wid)));
        len = strlen(baseword);""", "TWIN.S3-hyp-passes")
M("C03", "hyp: count forgets separator", FS, "        len += strlen(baseword) + 1;", "        len += strlen(baseword);", "TWIN.S3-hyp-passes")
M("C03", "hyp: separator unguarded", FS, """        if (c > search->hyp_str) {
            --c;
            *c = ' ';
        }""", """        {
            --c;
            *c = ' ';
        }""", "TWIN.S3-hyp-passes")
M("C03", "hyp: word not base form", FS, """        baseword = dict_basestr(dict,
                                dict_wordid(dict,
                                            fsg_model_word_str(fsgs->fsg, wid)));
        len += strlen(baseword) + 1;""", """        baseword = fsg_model_word_str(fsgs->fsg, wid);
        len += strlen(baseword) + 1;""", "TWIN.S3-hyp-passes")
M("C03", "forward: advance skipped on k==0", DC, """            return k;
        acmod_advance(d->acmod);
        ++d->n_frame;""", """            return k;
        if (k > 0) acmod_advance(d->acmod);
        ++d->n_frame;""", "PAIR.S4-frames")
M("C03", "forward: nfr counted twice", DC, "        ++d->n_frame;\n        ++nfr;", "        ++d->n_frame;\n        ++nfr;\n        if (d->acmod->n_feat_frame == 0) ++nfr;", "PAIR.S4-frames")
M("C03", "process_int16: returns last count", DC, """        if ((nfr = search_module_forward(d)) < 0)
            return nfr;
        n_searchfr += nfr;
    }

    return n_searchfr;
}

int
decoder_end_utt""", """        if ((nfr = search_module_forward(d)) < 0)
            return nfr;
        n_searchfr = nfr;
    }

    return n_searchfr;
}

int
decoder_end_utt""", "PAIR.S4-frames")
M("C03", "advance: output_frame twice", AC, "    --acmod->n_feat_frame;\n    ++acmod->mgau->frame_idx;", "    --acmod->n_feat_frame;\n    ++acmod->mgau->frame_idx;\n    if (acmod->n_feat_frame == 0) ++acmod->output_frame;", "PAIR.S4-frames")
M("C03", "seg_iter: fill from front", FS, "    cur = itor->n_hist - 1;\n    bp = bpidx;", "    cur = 0;\n    bp = bpidx;", "PROV.S6-order")
M("C03", "seg_next: off by one end", FS, "    if (++itor->cur == itor->n_hist) {", "    if (++itor->cur == itor->n_hist - 1) {", "PROV.S6-order")
M("C03", "benign: ascr reordered", FS, "seg->ascr = hist_entry->score - ph->score - seg->lscr;", "seg->ascr = hist_entry->score - (seg->lscr + ph->score);", kind="benign")

PL = "src/ps_lattice.c"
# ---- C11 ----------------------------------------------------------------------
M("C11", "lat: node sf without +1", FS, """            ascr = fh->score - pfh->score;
            sf = pfh->frame + 1;
        } else {
            ascr = fh->score;
            sf = 0;
        }

        /*
         * Note that although""", """            ascr = fh->score - pfh->score;
            sf = pfh->frame;
        } else {
            ascr = fh->score;
            sf = 0;
        }

        /*
         * Note that although""", "PROV.L1-keys")
M("C11", "lat: link pass sf differs", FS, """            sf = pfh->frame + 1;
            ascr = fh->score - pfh->score;""", """            sf = pfh->frame + 2;
            ascr = fh->score - pfh->score;""", "TWIN.L2-key-agreement")
M("C11", "lat: dest at same frame", FS, "        sf = fh->frame + 1;\n", "        sf = fh->frame;\n", "PROV.L1-keys")
M("C11", "lat: dest state from_state", FS, "if ((dest = find_node(dag, fsg, sf, link->wid, fsg_link_to_state(link))) != NULL)\n                    lattice_link", "if ((dest = find_node(dag, fsg, sf, link->wid, fsg_link_from_state(link))) != NULL)\n                    lattice_link", "PROV.L1-keys")
M("C11", "lat: link ef is sf", FS, "                    lattice_link(dag, src, dest, ascr, fh->frame);\n            } else {", "                    lattice_link(dag, src, dest, ascr, sf);\n            } else {", "PROV.L1-keys")
M("C11", "lat: cache ignores frame", FS, "    if (search->dag && search->dag->n_frames == fsgs->frame)\n        return search->dag;", "    if (search->dag)\n        return search->dag;", "GUARD.L3-cache")
M("C11", "lat: find_node ignores state", FS, "if ((node->sf == sf) && (node->wid == wid) && (node->node_id == node_id))", "if ((node->sf == sf) && (node->wid == wid))", "GUARD.L4-nodes")
M("C11", "lat: lef min-merge", FS, "        if (node->lef == -1 || node->lef < ef)\n            node->lef = ef;", "        if (node->lef == -1 || node->lef > ef)\n            node->lef = ef;", "GUARD.L4-nodes")
M("C11", "lat: start deref when 0 cands", FS, "    if (nstart == 1) {\n        node = gnode_ptr(start);", "    if (nstart <= 1) {\n        node = gnode_ptr(start);", "GUARD.L4-nodes")
M("C11", "lat: end cands need exits", FS, "        if (node->lef == dag->n_frames - 1 && node->entries) {", "        if (node->lef == dag->n_frames - 1 && node->exits) {", "GUARD.L4-nodes")
M("C11", "lat: wid converted before end node", FS, """    if ((dag->end = find_end_node(fsgs, dag)) == NULL) {
        E_WARN("Failed to find the end node\\n");
        goto error_out;
    }
""", "", "GUARD.L4-nodes")
M("C11", "lat: link not in entries", PL, "        revlink->next = to->entries;\n        to->entries = revlink;", "        revlink->next = to->entries;", "PROV.L5-link")
M("C11", "lat: link merge keeps worse", PL, "        if (score BETTER_THAN fwdlink->link->ascr) {\n            fwdlink->link->ascr = score;", "        if (score WORSE_THAN fwdlink->link->ascr) {\n            fwdlink->link->ascr = score;", "PROV.L5-link")
M("C11", "lat: delete marks wrong side", PL, "        x->link->from = NULL;\n        listelem_free(dag->latlink_list_alloc, x);\n    }\n    for (x = node->entries", "        x->link->to = NULL;\n        listelem_free(dag->latlink_list_alloc, x);\n    }\n    for (x = node->entries", "TYPESTATE.L6-unreachable")
M("C11", "lat: unreachable not unlinked", PL, """            if (prev_node)
                prev_node->next = next_node;
            else
                dag->nodes = next_node;
            /* Delete this node""", """            if (prev_node)
                prev_node->next = next_node;
            /* Delete this node""", "TYPESTATE.L6-unreachable")
M("C11", "lat: mark reachable from start", FS, "    mark_reachable(dag, dag->end);", "    mark_reachable(dag, dag->start);", "GUARD.L4-nodes")
M("C11", "lat benign: reorder key compare", FS, "if ((node->sf == sf) && (node->wid == wid) && (node->node_id == node_id))", "if ((node->node_id == node_id) && (wid == node->wid) && (node->sf == sf))", kind="benign")

# ---- C12 ----------------------------------------------------------------------
M("C12", "benign: scan non-strict (ties only)", PL, "        if ((p->score + p->node->info.rem_score) < total_score)\n            break;", "        if ((p->score + p->node->info.rem_score) <= total_score)\n            break;", kind="benign")
M("C12", "astar: scan direction flipped", PL, "        if ((p->score + p->node->info.rem_score) < total_score)\n            break;", "        if ((p->score + p->node->info.rem_score) > total_score)\n            break;", "TWIN.P1-agenda-key")
M("C12", "astar: scan ignores heuristic", PL, "        if ((p->score + p->node->info.rem_score) < total_score)\n            break;", "        if ((p->score) < total_score)\n            break;", "TWIN.P1-agenda-key")
M("C12", "astar: extension key parent's node", PL, "        total_score = newpath->score + newpath->node->info.rem_score;", "        total_score = newpath->score + path->node->info.rem_score;", "TWIN.P1-agenda-key")
M("C12", "astar: insert after p", PL, "        newpath->next = p;\n        if (!prev)", "        newpath->next = p ? p->next : NULL;\n        if (!prev)", "ORDER.P2-agenda")
M("C12", "astar: path score forgets link", PL, "        newpath->score = path->score + x->link->ascr;", "        newpath->score = path->score;", "ORDER.P2-agenda")
M("C12", "astar: pops second", PL, "        nbest->path_list = nbest->path_list->next;\n        if (nbest->top", "        nbest->path_list = nbest->path_list->next ? nbest->path_list->next->next : NULL;\n        if (nbest->top", "ORDER.P2-agenda")
M("C12", "bestpath: min-merge", PL, "            if (score BETTER_THAN x->link->path_scr) {\n                x->link->path_scr = score;", "            if (score WORSE_THAN x->link->path_scr) {\n                x->link->path_scr = score;", "ORDER.P3-best-of")
M("C12", "bestpath: best_prev not updated", PL, "                x->link->path_scr = score;\n                x->link->best_prev = link;", "                x->link->path_scr = score;", "ORDER.P3-best-of")
M("C12", "rem_score: min over exits", PL, "        if (score BETTER_THAN bestscore)\n            bestscore = score;", "        if (score WORSE_THAN bestscore)\n            bestscore = score;", "ORDER.P3-best-of")
M("C12", "rem_score: forgets link score", PL, "        score = best_rem_score(nbest, x->link->to);\n        score += x->link->ascr;", "        score = best_rem_score(nbest, x->link->to);", "ORDER.P3-best-of")
M("C12", "traverse: expand before fanin 0", PL, "    --next->to->info.fanin;\n    if (next->to->info.fanin == 0) {", "    --next->to->info.fanin;\n    if (next->to->info.fanin <= 1) {", "TWIN.P4-traversal")
M("C12", "reverse: uses exits", PL, "        for (x = next->from->entries; x; x = x->next)\n            lattice_pushq(dag, x->link);", "        for (x = next->from->exits; x; x = x->next)\n            lattice_pushq(dag, x->link);", "TWIN.P4-traversal")
M("C12", "beta: unscaled ascr", PL, "                                             + (int)((x->link->ascr << SENSCR_SHIFT) * ascale));", "                                             + (int)((x->link->ascr << SENSCR_SHIFT)));", "TWIN.P5-scaling")
M("C12", "alpha: adds own alpha twice", PL, "x->link->alpha = logmath_add(lmath, x->link->alpha, link->alpha + bprob);", "x->link->alpha = logmath_add(lmath, link->alpha, link->alpha + bprob);", "TWIN.P5-scaling")
M("C12", "astar_hyp: count forgets separator", PL, """            char *wstr = dict_wordstr(search_module_dict(search), p->node->basewid);
            if (wstr != NULL)
                len += strlen(wstr) + 1;""", """            char *wstr = dict_wordstr(search_module_dict(search), p->node->basewid);
            if (wstr != NULL)
                len += strlen(wstr);""", "TWIN.P6-hyp-passes")
M("C12", "astar: popped path recycled when agenda length unchanged", PL, "            if (nbest->top->node->fef < nbest->ef)\n                path_extend(nbest, nbest->top);", "            int32 n_path = nbest->n_path;\n            if (nbest->top->node->fef < nbest->ef)\n                path_extend(nbest, nbest->top);\n            if (nbest->n_path == n_path)\n                listelem_free(nbest->latpath_alloc, nbest->top);", "OWN.P7-path-lifetime")
M("C12", "astar: extension frees its parent", PL, "        newpath->parent = path;", "        newpath->parent = path;\n        if (x->next == NULL)\n            listelem_free(nbest->latpath_alloc, path);", "OWN.P7-path-lifetime")
M("C12", "benign: rejected child released through a temporary", PL, "                listelem_free(nbest->latpath_alloc, newpath);", "                { latpath_t *dead = newpath; listelem_free(nbest->latpath_alloc, dead); }", kind="benign")
M("C12", "benign: key operands swapped", PL, "        total_score = newpath->score + newpath->node->info.rem_score;", "        total_score = newpath->node->info.rem_score + newpath->score;", kind="benign")

FM = "src/fsg_model.c"
# ---- C13 ----------------------------------------------------------------------
M("C13", "fsg: revert %g", FM, '"%s %d %d %g %s\\n", FSG_MODEL_TRANSITION_DECL', '"%s %d %d %f %s\\n", FSG_MODEL_TRANSITION_DECL', "TABLE.W4-scaling")
M("C13", "fsg: writer swaps from/to", FM, "                    tl->from_state, tl->to_state,\n                    logmath_exp", "                    tl->to_state, tl->from_state,\n                    logmath_exp", "TABLE.W2-transition-line")
M("C13", "fsg: writer header order", FM, """    fprintf(fp, "%s %d\\n", FSG_MODEL_START_STATE_DECL, fsg->start_state);
    fprintf(fp, "%s %d\\n", FSG_MODEL_FINAL_STATE_DECL, fsg->final_state);""", """    fprintf(fp, "%s %d\\n", FSG_MODEL_FINAL_STATE_DECL, fsg->final_state);
    fprintf(fp, "%s %d\\n", FSG_MODEL_START_STATE_DECL, fsg->start_state);""", "TABLE.W1-keywords")
M("C13", "fsg: writer integer division (seed C13-2)", FM, "(int32)(tl->logs2prob / fsg->lw)),", "tl->logs2prob / (int32)fsg->lw),", "TABLE.W4-scaling")
M("C13", "fsg: writer multiplies lw", FM, "(int32)(tl->logs2prob / fsg->lw)),", "(int32)(tl->logs2prob * fsg->lw)),", "TABLE.W4-scaling")
M("C13", "fsg: reader swaps i j", FM, "                fsg_model_trans_add(fsg, i, j, tprob, wid);\n                ++n_trans;", "                fsg_model_trans_add(fsg, j, i, tprob, wid);\n                ++n_trans;", "TABLE.W2-transition-line")
M("C13", "fsg: reader to-state unchecked", FM, "            if (endptr == val || j < 0 || j >= fsg->n_state) {", "            if (endptr == val || j < 0 || j > fsg->n_state) {", "TABLE.W2-transition-line")
M("C13", "fsg: dup arc keeps lower", FM, "            if (link->logs2prob < logp)\n                link->logs2prob = logp;\n            return;", "            if (link->logs2prob > logp)\n                link->logs2prob = logp;\n            return;", "ORDER.W3-merge")
M("C13", "fsg: null dup returns 0 unchanged", FM, "            link->logs2prob = logp;\n            return 0;\n        } else\n            return -1;", "            link->logs2prob = logp;\n            return 0;\n        } else\n            return 0;", "ORDER.W3-merge")
M("C13", "fsg: closure flag only on new (seed C13-1)", FM, """                if (k >= 0) {
                    updated = TRUE;
                    if (k > 0) {
                        nulls = glist_add_ptr(nulls, (void *)fsg_model_null_trans(fsg, tl1->from_state, tl2->to_state));
                        n++;
                    }
                }""", """                if (k > 0) {
                    updated = TRUE;
                    nulls = glist_add_ptr(nulls, (void *)fsg_model_null_trans(fsg, tl1->from_state, tl2->to_state));
                    n++;
                }""", "PROV.W5-transforms")
M("C13", "fsg: closure composes from tl1 to tl1", FM, "                                             tl1->from_state,\n                                             tl2->to_state,\n                                             tl1->logs2prob + tl2->logs2prob);", "                                             tl1->from_state,\n                                             tl2->to_state,\n                                             tl2->logs2prob);", "PROV.W5-transforms")
M("C13", "fsg: closure iterates arcs of from_state", FM, "            for (itor = hash_table_iter(fsg->trans[tl1->to_state].null_trans);", "            for (itor = hash_table_iter(fsg->trans[tl1->from_state].null_trans);", "PROV.W5-transforms")
M("C13", "fsg: silence skips state 0", FM, "        for (src = 0; src < fsg->n_state; src++) {\n            fsg_model_trans_add(fsg, src, src, logsilp, silwid);", "        for (src = 0; src < fsg->n_state - 1; src++) {\n            fsg_model_trans_add(fsg, src, src, logsilp, silwid);", "PROV.W5-transforms")
M("C13", "fsg: alt copies to from_state", FM, "                    link->to_state = fl->to_state;\n                    link->logs2prob = fl->logs2prob; /* FIXME!!!??? */", "                    link->to_state = fl->from_state;\n                    link->logs2prob = fl->logs2prob; /* FIXME!!!??? */", "PROV.W5-transforms")
M("C13", "fsg: null self-loop accepted", FM, "    if (from == to)\n        return -1;\n\n    if (fsg->trans[from].null_trans == NULL)", "    if (fsg->trans[from].null_trans == NULL)", "ORDER.W3-merge")
M("C13", "fsg benign: %.8g", FM, '"%s %d %d %g %s\\n", FSG_MODEL_TRANSITION_DECL', '"%s %d %d %.8g %s\\n", FSG_MODEL_TRANSITION_DECL', kind="benign")

JS = "src/jsgf.c"
# ---- C05 ----------------------------------------------------------------------
M("C05", "jsgf: a rule expanded once is linked into again", "src/jsgf.c", """            } else {
                int rv;
                /* Expand the subrule */""", """            } else if (subrule->entry > 0 && subrule->exit > 0 && gnode_next(gn) == NULL) {
                jsgf_add_link(grammar, atom, lastnode, subrule->entry);
                lastnode = subrule->exit;
            } else {
                int rv;
                /* Expand the subrule */""", "GUARD.J5-recursion")
M("C05", "jsgf: top-level result ignored again", JS, """    if (expand_rule(grammar, rule) == -1) {
        E_ERROR("Failed to expand rule %s\\n", rule->name);
        glist_free(grammar->rulestack);
        grammar->rulestack = NULL;
        return NULL;
    }""", "    expand_rule(grammar, rule);", "ERRD.J1-refusal")
M("C05", "jsgf: sub-expansion failure ignored", JS, "                if (rv == -1)\n                    return -1;", "                (void)rv;", "ERRD.J1-refusal")
M("C05", "jsgf: rhs failure treated as recursion", JS, "        if (lastnode == -1) {\n            return -1;\n        } else if (lastnode == RECURSION) {", "        if (lastnode == -1 || lastnode == RECURSION) {", "ERRD.J1-refusal")
M("C05", "jsgf: stack reset dropped", JS, """    /* Forget any rule stack left over from a failed expansion. */
    glist_free(grammar->rulestack);
    grammar->rulestack = NULL;
    if (expand_rule""", "    if (expand_rule", "PAIR.J2-rulestack")
M("C05", "jsgf: embedded recursion allowed", JS, """                if (gnode_next(gn) != NULL || embedded) {
                    E_ERROR("Only right-recursion is permitted (in %s.%s)\\n",
                            grammar->name, rule->name);
                    return -1;
                }""", "", "GUARD.J5-recursion")
M("C05", "jsgf: back link to rule->entry (seed C05-1)", JS, "                jsgf_add_link(grammar, atom, lastnode, subrule->entry);\n                return RECURSION;", "                jsgf_add_link(grammar, atom, lastnode, rule->entry);\n                return RECURSION;", "GUARD.J5-recursion")
M("C05", "jsgf: subrule link from rule entry", JS, "                jsgf_add_link(grammar, atom,\n                              lastnode, subrule->entry);\n                lastnode = subrule->exit;", "                jsgf_add_link(grammar, atom,\n                              rule->entry, subrule->entry);\n                lastnode = subrule->exit;", "GUARD.J5-recursion")
M("C05", "jsgf: token forgets new state", JS, """            jsgf_add_link(grammar, atom, lastnode, grammar->nstate);
            lastnode = grammar->nstate;
            ++grammar->nstate;
        }
    }

    return lastnode;""", """            jsgf_add_link(grammar, atom, lastnode, grammar->nstate);
            lastnode = grammar->nstate;
        }
    }

    return lastnode;""", "GUARD.J5-recursion")
M("C05", "jsgf: zero norm unrepaired", JS, "    if (norm == 0)\n        norm = 1;\n", "", "GUARD.J3-weights")
M("C05", "jsgf: kleene recursion first", JS, "    rhs->atoms = glist_add_ptr(NULL, rule_atom);\n    rhs->atoms = glist_add_ptr(rhs->atoms, atom);", "    rhs->atoms = glist_add_ptr(NULL, atom);\n    rhs->atoms = glist_add_ptr(rhs->atoms, rule_atom);", "PROV.J4-internal-rules")
M("C05", "jsgf: star base is the atom", JS, "    if (plus)\n        rhs->atoms = glist_add_ptr(NULL, jsgf_atom_new(atom->name, 1.0));", "    if (plus || atom->weight > 0)\n        rhs->atoms = glist_add_ptr(NULL, jsgf_atom_new(atom->name, 1.0));", "PROV.J4-internal-rules")
M("C05", "jsgf: final state is entry", JS, "    fsg->final_state = rule->exit;", "    fsg->final_state = rule->entry;", "PROV.J6-arcs")
M("C05", "jsgf: word arcs reversed", JS, "                fsg_model_trans_add(fsg, link->from, link->to,\n                                    logmath_log(lmath, link->atom->weight),", "                fsg_model_trans_add(fsg, link->to, link->from,\n                                    logmath_log(lmath, link->atom->weight),", "PROV.J6-arcs")
M("C05", "scanner: DECLCOMMENT closes to INITIAL (.c only)", "src/jsgf_scanner.c", "{ BEGIN(DECL); }\n", "{ BEGIN(INITIAL); }\n", "TABLE.J7-scanner-states")
M("C05", "decoder: null grammar passed on", DC, """    fsg = jsgf_build_fsg(jsgf, rule, d->lmath, lw);
    if (fsg == NULL) {
        jsgf_grammar_free(jsgf);
        return -1;
    }
    result = decoder_set_fsg(d, fsg);
    jsgf_grammar_free(jsgf);
    return result;
}

int
decoder_set_jsgf_string""", """    fsg = jsgf_build_fsg(jsgf, rule, d->lmath, lw);
    result = decoder_set_fsg(d, fsg);
    jsgf_grammar_free(jsgf);
    return result;
}

int
decoder_set_jsgf_string""", "ERRD.J1-refusal")

HM = "src/hmm.c"
LX = "src/fsg_lextree.c"
D2 = "src/dict2pid.c"
# ---- C02 ----------------------------------------------------------------------
M("C02", "hmm 3st: exit candidates guarded by the higher source state", "src/hmm.c", """    if (s1 BETTER_THAN WORST_SCORE) {
        t1 = s2 + hmm_tprob_3st(2, 3);""", """    if (s2 BETTER_THAN WORST_SCORE) {
        t1 = s2 + hmm_tprob_3st(2, 3);""", "VIT.L-liveness")
M("C02", "vit: revert 3st fix", HM, """    /* All transitions into state 2 (state 0 is always active) */
    t2 = INT_MIN; /* Forget any skip transition into the exit state */
    t0 = s2 + hmm_tprob_3st(2, 2);""", """    /* All transitions into state 2 (state 0 is always active) */
    t0 = s2 + hmm_tprob_3st(2, 2);""", "VIT.A")
M("C02", "vit: 5st swapped tp indices", HM, "        t1 = s3 + hmm_tprob_5st(3, 4);\n        t2 = s2 + hmm_tprob_5st(2, 4);\n        if (t0 BETTER_THAN t1) {\n            if (t2 BETTER_THAN t0) {\n                s4 = t2;\n                hmm_history(hmm, 4) = hmm_history(hmm, 2);\n            } else\n                s4 = t0;", "        t1 = s3 + hmm_tprob_5st(4, 3);\n        t2 = s2 + hmm_tprob_5st(2, 4);\n        if (t0 BETTER_THAN t1) {\n            if (t2 BETTER_THAN t0) {\n                s4 = t2;\n                hmm_history(hmm, 4) = hmm_history(hmm, 2);\n            } else\n                s4 = t0;", "VIT.A")
M("C02", "vit: 5st keeps smaller", HM, """        t2 = s1 + hmm_tprob_5st(1, 3);
        if (t0 BETTER_THAN t1) {
            if (t2 BETTER_THAN t0) {""", """        t2 = s1 + hmm_tprob_5st(1, 3);
        if (t0 BETTER_THAN t1) {
            if (t2 WORSE_THAN t0) {""", "VIT.B")
M("C02", "vit: 5st history from loser", HM, """                s3 = t1;
                hmm_history(hmm, 3) = hmm_history(hmm, 2);
            }
        }
        if (s3 WORSE_THAN WORST_SCORE)""", """                s3 = t1;
                hmm_history(hmm, 3) = hmm_history(hmm, 1);
            }
        }
        if (s3 WORSE_THAN WORST_SCORE)""", "VIT.H")
M("C02", "vit: 5st reordered update reads fresh value", HM, """    /* All transitions into state 1 */
    t0 = s1 + hmm_tprob_5st(1, 1);
    t1 = s0 + hmm_tprob_5st(0, 1);
    if (t0 BETTER_THAN t1) {
        s1 = t0;
    } else {
        s1 = t1;
        hmm_history(hmm, 1) = hmm_in_history(hmm);
    }
    if (s1 WORSE_THAN WORST_SCORE)
        s1 = WORST_SCORE;
    if (s1 BETTER_THAN bestScore)
        bestScore = s1;
    hmm_score(hmm, 1) = s1;

    /* All transitions into state 0 */
    s0 = s0 + hmm_tprob_5st(0, 0);""", """    /* All transitions into state 1 */
    t0 = s1 + hmm_tprob_5st(1, 1);
    t1 = s2 + hmm_tprob_5st(0, 1);
    if (t0 BETTER_THAN t1) {
        s1 = t0;
    } else {
        s1 = t1;
        hmm_history(hmm, 1) = hmm_in_history(hmm);
    }
    if (s1 WORSE_THAN WORST_SCORE)
        s1 = WORST_SCORE;
    if (s1 BETTER_THAN bestScore)
        bestScore = s1;
    hmm_score(hmm, 1) = s1;

    /* All transitions into state 0 */
    s0 = s0 + hmm_tprob_5st(0, 0);""", "VIT.C")
M("C02", "vit: mpx ssid not co-assigned", HM, """            s3 = t1;
            hmm_history(hmm, 3) = hmm_history(hmm, 2);
            ssid[3] = ssid[2];""", """            s3 = t1;
            hmm_history(hmm, 3) = hmm_history(hmm, 2);""", "VIT.H")
M("C02", "vit: 3st clamp dropped", HM, """    if (s1 WORSE_THAN WORST_SCORE)
        s1 = WORST_SCORE;
    if (s1 BETTER_THAN bestScore)
        bestScore = s1;
    hmm_score(hmm, 1) = s1;

    /* All transitions into state 0 */
    s0 = s0 + hmm_tprob_3st(0, 0);""", """    if (s1 BETTER_THAN bestScore)
        bestScore = s1;
    hmm_score(hmm, 1) = s1;

    /* All transitions into state 0 */
    s0 = s0 + hmm_tprob_3st(0, 0);""", "VIT.W")
M("C02", "vit: dispatcher 3st uses 5st", HM, "        else if (hmm_n_emit_state(hmm) == 3)\n            return hmm_vit_eval_3st_lr(hmm);", "        else if (hmm_n_emit_state(hmm) == 3)\n            return hmm_vit_eval_5st_lr(hmm);", "VIT.G")
M("C02", "vit: anytopo tests other transition", HM, "if ((hmm_tprob(hmm, from, to) BETTER_THAN TMAT_WORST_SCORE) && ((newscr = ctx->st_sen_scr[from] + hmm_tprob(hmm, from, to)) BETTER_THAN scr)) {\n                scr = newscr;\n                bestfrom = from;\n            }\n        }\n\n        /* Update new result for state to */", "if ((hmm_tprob(hmm, to, from) BETTER_THAN TMAT_WORST_SCORE) && ((newscr = ctx->st_sen_scr[from] + hmm_tprob(hmm, from, to)) BETTER_THAN scr)) {\n                scr = newscr;\n                bestfrom = from;\n            }\n        }\n\n        /* Update new result for state to */", "VIT.G")
M("C02", "lextree: revert root scan fix", LX, """                    pnode = NULL;
                    for (j = 0; j < n_ci && ssid_pnode_map[j] != NULL; ++j) {
                        if (hmm_nonmpx_ssid(&ssid_pnode_map[j]->hmm) == ssid) {
                            pnode = ssid_pnode_map[j];
                            break;
                        }
                    }""", """                    pnode = ssid_pnode_map[0];
                    for (j = 0; j < n_ci && ssid_pnode_map[j] != NULL; ++j) {
                        pnode = ssid_pnode_map[j];
                        if (hmm_nonmpx_ssid(&pnode->hmm) == ssid)
                            break;
                    }""", "CTX.model")
M("C02", "lextree: single-phone share test dropped", LX, """                    if (hmm_nonmpx_ssid(&pnode->hmm) == ssid) {
                        /* already allocated; share it for this context phone */
                        fsg_pnode_add_ctxt(pnode, lc);
                        break;
                    }""", """                    if (hmm_nonmpx_ssid(&pnode->hmm) >= 0) {
                        /* already allocated; share it for this context phone */
                        fsg_pnode_add_ctxt(pnode, lc);
                        break;
                    }""", "CTX.model")
M("C02", "lextree: leaf map keyed by rc", LX, "                        ssid_pnode_map[j] = pnode;\n                    } else {", "                        ssid_pnode_map[rc] = pnode;\n                    } else {", "CTX.model")
M("C02", "lextree: root ssid looked up with wrong roles", LX, "                    ssid = dict2pid_ldiph_lc(lextree->d2p, ci, rc, lc);", "                    ssid = dict2pid_ldiph_lc(lextree->d2p, ci, lc, rc);", "CTX.lookup")
M("C02", "lextree: rc list of from_state", LX, "                                  lextree->rc[dst],", "                                  lextree->rc[from_state],", "CTX.lookup")
M("C02", "lextree: wip in internal node", LX, "                pnode->logs2prob = lextree->pip;\n                pnode->ci_ext = dict_pron(lextree->dict, dictwid, p);\n                pnode->ppos = p;\n                pnode->leaf = FALSE;", "                pnode->logs2prob = lextree->pip + lextree->wip;\n                pnode->ci_ext = dict_pron(lextree->dict, dictwid, p);\n                pnode->ppos = p;\n                pnode->leaf = FALSE;", "ONCE.penalties")
M("C02", "lextree: leaf forgets arc prob", LX, "                        pnode->logs2prob = (fsg_link_logs2prob(fsglink) >> SENSCR_SHIFT)\n                            + lextree->pip;", "                        pnode->logs2prob = lextree->pip;", "ONCE.penalties")
M("C02", "search: child prob added twice", FS, "        newscore = hmm_out_score(hmm) + child->logs2prob;", "        newscore = hmm_out_score(hmm) + child->logs2prob + pnode->logs2prob;", "ONCE.penalties")
M("C02", "d2p: add_word swaps l/r (seed C02-2)", D2, "                                                dict_first_phone(d, wid), l,\n                                                dict_second_phone(d, wid),\n                                                WORD_POSN_BEGIN);", "                                                dict_first_phone(d, wid),\n                                                dict_second_phone(d, wid), l,\n                                                WORD_POSN_BEGIN);", "ROLE.context-tables")
M("C02", "d2p: build rdiph uses BEGIN", D2, "                                                  (s3cipid_t)l, (s3cipid_t)r,\n                                                  WORD_POSN_END);", "                                                  (s3cipid_t)l, (s3cipid_t)r,\n                                                  WORD_POSN_BEGIN);", "ROLE.context-tables")
M("C02", "d2p: guard tests other cell (seed C16-2)", D2, "        if (d2p->rssid[dict_last_phone(d, wid)][dict_second_last_phone(d, wid)].n_ssid\n            == 0) {", "        if (d2p->rssid[dict_last_phone(d, wid)][dict_second_phone(d, wid)].n_ssid\n            == 0) {", "ROLE.context-tables")
M("C02", "history: insert ascending", FH, "        if (score BETTER_THAN entry->score)\n            break; /* Found where to insert new entry */", "        if (score WORSE_THAN entry->score)\n            break; /* Found where to insert new entry */", "ORDER.best-of")
M("C02", "ctxt_sub: word 1 masked with word 0 (seed C02-1)", "include/soundswallower/fsg_lextree.h", "((src)->bv[1] = (~((sub)->bv[1]) & (src)->bv[1])) | ((src)->bv[2]", "((src)->bv[1] = (~((sub)->bv[0]) & (src)->bv[1])) | ((src)->bv[2]", "ORDER.best-of")
M("C02", "hmm_eval: bestscore min", FS, "        if (score BETTER_THAN bestscore)\n            bestscore = score;", "        if (score WORSE_THAN bestscore)\n            bestscore = score;", "ORDER.best-of")
M("C02", "benign: 5st temp renamed & reordered", HM, "        t0 = s4 + hmm_tprob_5st(4, 4);\n        t1 = s3 + hmm_tprob_5st(3, 4);\n        t2 = s2 + hmm_tprob_5st(2, 4);", "        t2 = s2 + hmm_tprob_5st(2, 4);\n        t1 = hmm_tprob_5st(3, 4) + s3;\n        t0 = s4 + hmm_tprob_5st(4, 4);", kind="benign")

AL = "src/ps_alignment.c"
SAS = "src/state_align_search.c"
# ---- C04 ----------------------------------------------------------------------
M("C04", "align: duration without +1", DC, "alignment_add_word(al, wid, seg->sf, seg->ef - seg->sf + 1);", "alignment_add_word(al, wid, seg->sf, seg->ef - seg->sf);", "PROV.A0-words")
M("C04", "align: rewind unchecked", DC, "    if (acmod_rewind(d->acmod) < 0)\n        return NULL;\n    if (search_module_start(d->align) < 0)", "    acmod_rewind(d->acmod);\n    if (search_module_start(d->align) < 0)", "PROV.A0-words")
M("C04", "align: first phone uses rc for lc", AL, "                = dict2pid_ldiph_lc(d2p, sent->id.pid.cipid,\n                                    dict_second_phone(dict, wid), lc);", "                = dict2pid_ldiph_lc(d2p, sent->id.pid.cipid,\n                                    dict_second_phone(dict, wid), rc);", "ROLE.A1-models")
M("C04", "align: last phone context from first phone", AL, "            rssid = dict2pid_rssid(d2p, sent->id.pid.cipid,\n                                   dict_second_last_phone(dict, wid));", "            rssid = dict2pid_rssid(d2p, sent->id.pid.cipid,\n                                   dict_first_phone(dict, wid));", "ROLE.A1-models")
M("C04", "align: lc not updated", AL, "        lc = dict_last_phone(dict, wid);\n    }\n\n    /* For each senone sequence", "    }\n\n    /* For each senone sequence", "ROLE.A1-models")
M("C04", "align: rc of current word", AL, "            rc = dict_first_phone(dict, al->word.seq[i + 1].id.wid);", "            rc = dict_first_phone(dict, al->word.seq[i].id.wid);", "ROLE.A1-models")
M("C04", "propagate: word score not reset", AL, "            went->duration = 0;\n            went->score = 0;", "            went->duration = 0;", "TWIN.A2-propagate")
M("C04", "propagate: phone start from last child", AL, """        if (pent != last_ent) {
            pent->start = sent->start;
            pent->duration = 0;
            pent->score = 0;
        }
        pent->duration += sent->duration;""", """        if (pent != last_ent) {
            pent->duration = 0;
            pent->score = 0;
        }
        pent->start = sent->start;
        pent->duration += sent->duration;""", "TWIN.A2-propagate")
M("C04", "finish: duration off by one", SAS, "            ent->duration = last_frame - ent->start;", "            ent->duration = last_frame - ent->start + 1;", "LIN.A3-backtrace")
M("C04", "finish: score of wrong pair", SAS, "            ent->score = last.score - cur.score;", "            ent->score = cur.score - last.score;", "LIN.A3-backtrace")
M("C04", "finish: writes span of cur state", SAS, "            itor = alignment_iter_goto(itor, last.id);", "            itor = alignment_iter_goto(itor, cur.id);", "LIN.A3-backtrace")
M("C04", "record: history overwritten before saved", SAS, """            tokens[state_idx].id = hmm_history(hmm, j);
            tokens[state_idx].score = hmm_score(hmm, j);
            /* Update backpointer fields with state index. */
            hmm_history(hmm, j) = state_idx;""", """            hmm_history(hmm, j) = state_idx;
            tokens[state_idx].id = hmm_history(hmm, j);
            tokens[state_idx].score = hmm_score(hmm, j);""", "LIN.A3-backtrace")
M("C04", "populate: went used after word grow", AL, """    if ((ent = alignment_vector_grow_one(&al->word)) == NULL)
        return 0;
    ent->id.wid = wid;""", """    alignment_entry_t *first = al->word.seq + 0;
    if ((ent = alignment_vector_grow_one(&al->word)) == NULL)
        return 0;
    if (first->start > start) return 0;
    ent->id.wid = wid;""", "TYPESTATE.A4-stale-entry")
M("C04", "init: ef without start", SAS, "            sas->ef[i] = ent->start + ent->duration;", "            sas->ef[i] = ent->duration;", "PROV.A5-constraints")
M("C04", "prune: compares ef of next phone", SAS, "        if (nf > sas->ef[i])\n            continue;", "        if (i + 1 < sas->n_phones && nf > sas->ef[i + 1])\n            continue;", "PROV.A5-constraints")
M("C04", "transition: start bound of own phone", SAS, "        if (nf < sas->sf[i + 1])\n            continue;", "        if (nf < sas->sf[i])\n            continue;", "PROV.A5-constraints")
M("C04", "transition: in_history carried", SAS, "            hmm_enter(nhmm, newphone_score, hmm_out_history(hmm), nf);", "            hmm_enter(nhmm, newphone_score, hmm_in_history(hmm), nf);", "PROV.A5-constraints")

FI = "src/fe_interface.c"
FSG = "src/fe_sigproc.c"
# ---- C06 ----------------------------------------------------------------------
M("C06", "swap: byte view of unparenthesised address", "include/soundswallower/byteorder.h", "uint8 tmp, *ux = (uint8 *)(x);", "uint8 tmp, *ux = (uint8 *)x;", "PROV.F5-swap-target")
M("C06", "swap: swaps the next sample", "src/fe_interface.c", "                    SWAP_FLOAT32(fe->overflow_samps + i);", "                    SWAP_FLOAT32(fe->overflow_samps + i + 1);", "PROV.F5-swap-target")
M("C06", "fe: stale assert returns", FI, "        *spch += *inout_nsamps;\n    }\n    fe->num_overflow_samps += (int)*inout_nsamps;", "        *spch += *inout_nsamps;\n    }\n    assert(*inout_nsamps <= MAX_INT16);\n    fe->num_overflow_samps += (int)*inout_nsamps;", "GUARD.F4-size-asserts")
M("C06", "fe: int16 append one short", FI, """        for (i = 0; i < *inout_nsamps; ++i) {
            int16 sample = (*spch)[i];""", """        for (i = 0; i + 1 < *inout_nsamps; ++i) {
            int16 sample = (*spch)[i];""", "TWIN.F1-encodings")
M("C06", "fe: float read_overflow wrong dest", FI, """        memcpy(fe->overflow_samps + fe->num_overflow_samps,
               *spch, offset * sizeof(float32));
        *spch += offset;
        *inout_nsamps -= offset;""", """        memcpy(fe->overflow_samps + fe->num_overflow_samps + 1,
               *spch, offset * sizeof(float32));
        *spch += offset;
        *inout_nsamps -= offset;""", "TWIN.F1-encodings")
M("C06", "fe: int16 create reads from spch", FI, "            const int16 *inptr = *spch - (fe->frame_size - fe->frame_shift);", "            const int16 *inptr = *spch - (fe->frame_size - fe->frame_shift) + 1;", "TWIN.F1-encodings")
M("C06", "fe: float path forgets nsamps", FI, """        memcpy(fe->overflow_samps + fe->num_overflow_samps,
               orig, n_overflow * sizeof(float32));
        fe->num_overflow_samps += n_overflow;
        /* Advance the input pointers. */
        if (n_overflow > *spch - orig) {
            n_overflow -= (int)(*spch - orig);
            *spch += n_overflow;
            *inout_nsamps -= n_overflow;
        }""", """        memcpy(fe->overflow_samps + fe->num_overflow_samps,
               orig, n_overflow * sizeof(float32));
        fe->num_overflow_samps += n_overflow;
        /* Advance the input pointers. */
        if (n_overflow > *spch - orig) {
            n_overflow -= (int)(*spch - orig);
            *spch += n_overflow;
        }""", "TWIN.F1-encodings")
M("C06", "fe: scale 32767", "include/soundswallower/fe.h", "#define FLOAT32_SCALE 32768.0", "#define FLOAT32_SCALE 32767.0", "TABLE.F2-scale")
M("C06", "fe: shift_frame_float32 offset", FSG, """            fe->spch[i + offset] = sample * FLOAT32_SCALE;
        }
    }

    fe_spch_to_frame(fe, offset + len);
    return len;""", """            fe->spch[i + offset - 1] = sample * FLOAT32_SCALE;
        }
    }

    fe_spch_to_frame(fe, offset + len);
    return len;""", "TWIN.F1-encodings")
M("C06", "fe: create skip guard (seed C06-1)", FI, "    if (fe->num_overflow_samps > 0) {\n        if (encoding == FE_PCM16) {", "    if (n_overflow > 0) {\n        if (encoding == FE_PCM16) {", "PAIR.I1-carry-over")
M("C06", "fe: compaction by one shift (seed C06-2 shape)", FI, "            fe->overflow_samps + orig_n_overflow - fe->num_overflow_samps,", "            fe->overflow_samps + fe->frame_shift,", "PAIR.I1-carry-over")
M("C06", "fe: orig_n_overflow taken after first frame", FI, """    orig_spch = *(void **)inout_spch;
    orig_n_overflow = fe->num_overflow_samps;""", """    orig_spch = *(void **)inout_spch;""", "PAIR.I1-carry-over")
M("C06", "fe: read_overflow forgets shift", FI, "    fe_read_frame_float32(fe, fe->overflow_samps, fe->frame_size);\n    fe->num_overflow_samps -= fe->frame_shift;", "    fe_read_frame_float32(fe, fe->overflow_samps, fe->frame_size);", "PAIR.I1-carry-over")
M("C06", "fe: fe_end keeps count", FI, "    /* reset overflow buffers... */\n    fe->num_overflow_samps = 0;\n", "", "PAIR.I1-carry-over")
M("C06", "fe: frame_count off by one", FI, "    frame_count = 1\n        + (int)((*inout_nsamps + fe->num_overflow_samps - fe->frame_size)\n                / fe->frame_shift);", "    frame_count = (int)((*inout_nsamps + fe->num_overflow_samps - fe->frame_size)\n                / fe->frame_shift);", "PAIR.I2-frames")
M("C06", "fe: loop nsamps not reduced", FI, "        *inout_nsamps -= shift;\n    }", "    }", "PAIR.F3-consume")
M("C06", "fe benign: float branch uses a loop", FI, """        memcpy(fe->overflow_samps + fe->num_overflow_samps,
               *spch, *inout_nsamps * (sizeof(float32)));
        *spch += *inout_nsamps;""", """        for (i = 0; i < *inout_nsamps; ++i) {
            float32 sample = (*spch)[i];
            fe->overflow_samps[fe->num_overflow_samps + i] = sample;
        }
        *spch += *inout_nsamps;""", kind="benign")

# ---- C07 ----------------------------------------------------------------------
M("C07", "acmod: revert state fix", AC, "    if (acmod->state == ACMOD_STARTED && orig_n_frames - *inout_n_frames > 0)\n        acmod->state = ACMOD_PROCESSING;", "    if (acmod->state == ACMOD_STARTED)\n        acmod->state = ACMOD_PROCESSING;", "CENSUS.utt-state")
M("C07", "acmod: int16 last write capacity (seed C07-1)", AC, """        if ((nvec = fe_process_int16(acmod->fe, inout_raw, inout_n_samps,
                                     acmod->mfc_buf + inptr, ncep))
            < 0)""", """        if ((nvec = fe_process_int16(acmod->fe, inout_raw, inout_n_samps,
                                     acmod->mfc_buf + inptr, acmod->n_mfc_alloc - inptr))
            < 0)""", "RING.capacity")
M("C07", "acmod: rewind count (seed C07-2)", AC, "    acmod->n_feat_frame = acmod->output_frame + acmod->n_feat_frame;", "    acmod->n_feat_frame = acmod->output_frame + acmod->n_mfc_frame;", "GUARD.rewind")
M("C07", "acmod: rewind allowed when wrapped", AC, "    if (acmod->output_frame > acmod->n_feat_alloc) {\n        E_ERROR(\"Circular", "    if (acmod->output_frame > 2 * acmod->n_feat_alloc) {\n        E_ERROR(\"Circular", "GUARD.rewind")
M("C07", "acmod: mfcbuf outidx not wrapped", AC, "        acmod->mfc_outidx += ncep1;\n        acmod->mfc_outidx %= acmod->n_mfc_alloc;", "        acmod->mfc_outidx += ncep1;", "RING.index")
M("C07", "acmod: inptr no modulo", AC, "        inptr = (acmod->feat_outidx + acmod->n_feat_frame) % acmod->n_feat_alloc;", "        inptr = (acmod->feat_outidx + acmod->n_feat_frame);", "RING.index")
M("C07", "acmod: advance compares alloc+1", AC, "    if (++acmod->feat_outidx == acmod->n_feat_alloc)\n        acmod->feat_outidx = 0;", "    if (++acmod->feat_outidx > acmod->n_feat_alloc)\n        acmod->feat_outidx = 0;", "RING.index")
M("C07", "acmod: float32 forgets count", AC, """                                       acmod->mfc_buf + inptr,
                                       ncep))
            < 0)
            return -1;
        acmod->n_mfc_frame += nvec;""", """                                       acmod->mfc_buf + inptr,
                                       ncep))
            < 0)
            return -1;""", "RING.capacity")
M("C07", "acmod: mask not restored on all paths", AC, "        /* Restore original state (could this really be the end) */\n        acmod->state = saved_state;", "        /* Restore original state (could this really be the end) */\n        if (ncep > 0) acmod->state = saved_state;", "CENSUS.utt-state")
M("C07", "acmod: endutt flag in first half", AC, """                                     &ncep1,
                                     (acmod->state == ACMOD_STARTED),
                                     FALSE,""", """                                     &ncep1,
                                     (acmod->state == ACMOD_STARTED),
                                     (acmod->state == ACMOD_ENDED),""", "CENSUS.utt-state")
M("C07", "feat: bufpos increment unwrapped", "src/feat.c", """        memcpy(fcb->cepbuf[fcb->bufpos++], uttcep[i],
               cepsize * sizeof(mfcc_t));
        fcb->bufpos %= LIVEBUFBLOCKSIZE;
        ++nbufcep;""", """        memcpy(fcb->cepbuf[fcb->bufpos++], uttcep[i],
               cepsize * sizeof(mfcc_t));
        ++nbufcep;""", "RING.index")
M("C07", "feat: replicate without input", "src/feat.c", "    if (beginutt && *inout_ncep > 0) {\n        for (i = 0; i < win; i++) {", "    if (beginutt) {\n        for (i = 0; i < win; i++) {", "CENSUS.utt-state")
M("C07", "decoder: float32 process searches while buffering", DC, """        if ((nfr = acmod_process_float32(d->acmod, &data,
                                         &n_samples, full_utt))
            < 0)
            return nfr;

        /* Score and search as much data as possible */
        if (no_search)
            continue;""", """        if ((nfr = acmod_process_float32(d->acmod, &data,
                                         &n_samples, full_utt))
            < 0)
            return nfr;
""", "GUARD.rewind")
M("C07", "acmod: full_float32 forgets fe_start", AC, """    acmod->n_mfc_frame = 0;
    acmod->mfc_outidx = 0;
    fe_start(acmod->fe);
    if ((nvec = fe_process_float32(acmod->fe,""", """    acmod->n_mfc_frame = 0;
    acmod->mfc_outidx = 0;
    if ((nvec = fe_process_float32(acmod->fe,""", "TWIN.entry-points")
M("C07", "decoder: start_utt accepts PROCESSING (seed C09-2)", DC, "    if (d->acmod->state == ACMOD_STARTED || d->acmod->state == ACMOD_PROCESSING) {", "    if (d->acmod->state == ACMOD_STARTED) {", "CENSUS.utt-state")

DI = "src/dict.c"
# ---- C16 ----------------------------------------------------------------------
M("C16", "dict: chain relinked before duplicate test", DI, """        basewid = w;
    } else {
        basewid = BAD_S3WID;
    }""", """        basewid = w;
        d->word[w].alt = d->n_word;
    } else {
        basewid = BAD_S3WID;
    }""", "EFFECT.D1-failure-paths")
M("C16", "dict: alt does not inherit chain (seed C16-1 shape)", DI, "        wordp->alt = d->word[basewid].alt;\n", "        wordp->alt = BAD_S3WID;\n", "PAIR.D3-slot-and-chain")
M("C16", "dict: empty word accepted", DI, """    if (word == NULL || word[0] == '\\0') {
        E_ERROR("Cannot add an empty word\\n");
        return BAD_S3WID;
    }
""", "", "GUARD.D2-empty-input")
M("C16", "dict: basestr reads before start", DI, "    if (len > 0 && word[len - 1] == ')') {", "    if (word[len - 1] == ')') {", "GUARD.D2-empty-input")
M("C16", "dict: slot pointer before growth", DI, """    if (d->n_word >= d->max_words) {
        E_INFO("Reallocating""", """    wordp = d->word + d->n_word;
    if (d->n_word >= d->max_words) {
        E_INFO("Reallocating""", "PAIR.D3-slot-and-chain")
M("C16", "dict: capacity grows more than table", DI, "        d->max_words = d->max_words + S3DICT_INC_SZ;", "        d->max_words = d->max_words + S3DICT_INC_SZ + 1;", "PAIR.D3-slot-and-chain")
M("C16", "dict: count grows before registration", DI, "    if (hash_table_enter_int32(d->ht, wordp->word, d->n_word) != d->n_word) {", "    if (hash_table_enter_int32(d->ht, wordp->word, d->n_word++) != d->n_word - 1) {", "EFFECT.D1-failure-paths")
M("C16", "decoder: pron bytes again", DC, "    pron = ckd_calloc(strlen(phones) + 1, sizeof(*pron));", "    pron = ckd_calloc(1, strlen(phones) + 1);", "ALLOCSZ.D4")
M("C16", "decoder: empty pron accepted", DC, """    if (np == 0) {
        E_ERROR("Empty pronunciation for word %s\\n", word);
        ckd_free(pron);
        return -1;
    }
""", "", "GUARD.D2-empty-input")
M("C16", "decoder: pron leaked on refusal", DC, """    if ((wid = dict_add_word(d->dict, word, pron, np)) == -1) {
        ckd_free(pron);
        return -1;
    }""", """    if ((wid = dict_add_word(d->dict, word, pron, np)) == -1) {
        return -1;
    }""", "ERRD.D6-api")
M("C16", "decoder: refusal not propagated", DC, """    if ((wid = dict_add_word(d->dict, word, pron, np)) == -1) {
        ckd_free(pron);
        return -1;
    }""", """    if ((wid = dict_add_word(d->dict, word, pron, np)) == -1) {
        ckd_free(pron);
        return 0;
    }""", "ERRD.D6-api")
M("C16", "decoder: dict2pid gets wrong id", DC, "    dict2pid_add_word(d->d2p, wid);", "    dict2pid_add_word(d->d2p, wid - 1);", "ERRD.D6-api")

# ---- C08 ----------------------------------------------------------------------
M("C08", "noise tracker: masking peaks not cleared on the first frame", "src/fe_noise.c", "            noise_stats->peak[i] = 0.0;\n", "", "LAZY.G5-first-frame")
M("C08", "search: beam_factor not reset (seed C08-1)", FS, "    fsgs->beam_factor = 1.0f;\n    fsgs->beam = fsgs->beam_orig;", "    fsgs->beam = fsgs->beam_orig;", "EFFECT.G2-resets")
M("C08", "search: function-static cache (seed C08-2)", FS, "    int32 silcipid;\n    fsg_pnode_ctxt_t ctxt;\n\n    /* Reset dynamic", "    static int32 silcipid = -1;\n    fsg_pnode_ctxt_t ctxt;\n\n    /* Reset dynamic", "CENSUS.G1-static-storage")
M("C08", "feat: cmn type latched again", "src/feat.c", "        cmn_type = CMN_LIVE;", "        fcb->cmn = cmn_type = CMN_LIVE;", "CENSUS.G2-per-utterance-fields")
M("C08", "acmod: senscr_frame not reset", AC, "    acmod->senscr_frame = -1;\n    acmod->n_senone_active = 0;", "    acmod->n_senone_active = 0;", "EFFECT.G2-resets")
M("C08", "acmod: mgau frame_idx not reset", AC, "    acmod->n_senone_active = 0;\n    acmod->mgau->frame_idx = 0;", "    acmod->n_senone_active = 0;", "EFFECT.G2-resets")
M("C08", "fe: pre-emphasis prior kept", FI, "    fe->pre_emphasis_prior = 0;\n    fe_reset_noisestats", "    fe_reset_noisestats", "EFFECT.G2-resets")
M("C08", "fe: noise stats not reset", FI, "    fe_reset_noisestats(fe->noise_stats);\n    return 0;", "    return 0;", "EFFECT.G2-resets")
M("C08", "decoder: hyp_str kept", DC, "    ckd_free(d->search->hyp_str);\n    d->search->hyp_str = NULL;\n    ckd_free(d->json_result);", "    ckd_free(d->json_result);", "EFFECT.G2-resets")
M("C08", "decoder: aligner kept (seed C04-1 shape)", DC, """    /* Remove any state aligner. */
    if (d->align) {
        search_module_free(d->align);
        d->align = NULL;
    }

    if ((rv = acmod_start_utt""", """    if ((rv = acmod_start_utt""", "EFFECT.G2-resets")
M("C08", "search: finish leaves next list active", FS, """    for (gn = fsgs->pnode_active_next; gn; gn = gnode_next(gn)) {
        pnode = (fsg_pnode_t *)gnode_ptr(gn);
        fsg_psubtree_pnode_deactivate(pnode);
    }
""", "", "EFFECT.G2-resets")
M("C08", "new global counter", "src/cmn_live.c", "void\ncmn_live_update(cmn_t *cmn)\n{", "static int n_updates;\nvoid\ncmn_live_update(cmn_t *cmn)\n{\n    ++n_updates;", "CENSUS.G1-static-storage")
M("C08", "fe_warp read at decode time", "src/fe_sigproc.c", "int\nfe_read_frame_int16(fe_t *fe, int16 const *in, int32 len)\n{\n    int i;\n", "int\nfe_read_frame_int16(fe_t *fe, int16 const *in, int32 len)\n{\n    int i;\n    if (fe->mel_fb->warp_id == 1 && fe_warp_unwarped_to_warped(fe->mel_fb, 1.0f) < 0) return 0;\n", "CENSUS.G1-static-storage")

# ---- C14 ----------------------------------------------------------------------
M("C14", "json: alignment empty-list placeholder dropped", DC, """        alignment_iter_t *itor = alignment_words(alignment);
        if (itor == NULL) {
            *ptr++ = ']'; /* Gets overwritten below... */
            maxlen--;
        }
        for (; itor; itor = alignment_iter_next(itor)) {
            assert(maxlen > 0);""", """        alignment_iter_t *itor = alignment_words(alignment);
        for (; itor; itor = alignment_iter_next(itor)) {
            assert(maxlen > 0);""", "EMIT.E1-two-passes")
M("C14", "json: sizing drops empty segment list (seed C09-1)", DC, """        seg_iter_t *itor = decoder_seg_iter(d);
        if (itor == NULL)
            maxlen++; /* ] at end */
        for (; itor; itor = seg_iter_next(itor)) {
            maxlen += format_seg""", """        seg_iter_t *itor = decoder_seg_iter(d);
        for (; itor; itor = seg_iter_next(itor)) {
            maxlen += format_seg""", "EMIT.E1-two-passes")
M("C14", "json: separator not counted", DC, """            maxlen += format_seg(NULL, 0, itor, start, frate, lmath);
            maxlen++; /* , or ] at end */""", """            maxlen += format_seg(NULL, 0, itor, start, frate, lmath);""", "EMIT.E1-two-passes")
M("C14", "json: writing pass different frame rate", DC, "            len = format_seg(ptr, maxlen, itor, start, frate, lmath);", "            len = format_seg(ptr, maxlen, itor, start, 100, lmath);", "EMIT.E1-two-passes")
M("C14", "json: remainder not tracked", DC, """            len = format_seg(ptr, maxlen, itor, start, frate, lmath);
            ptr += len;
            maxlen -= len;""", """            len = format_seg(ptr, maxlen, itor, start, frate, lmath);
            ptr += len;""", "EMIT.E1-two-passes")
M("C14", "json: maxlen decrement hoisted (seed C14-1)", DC, """                if (sitor != NULL) {
                    len++;
                    if (outptr)
                        *outptr++ = ',';
                    if (maxlen)
                        maxlen--;
                }""", """                if (sitor != NULL) {
                    len++;
                    if (outptr)
                        *outptr++ = ',';
                }
                if (maxlen)
                    maxlen--;""", "EMIT.E2-accounting")
M("C14", "json: state list close not counted", DC, """            len++;
            if (outptr)
                *outptr++ = ']';
            if (maxlen)
                maxlen--;
        }

        len++; /* } */""", """            if (outptr)
                *outptr++ = ']';
            if (maxlen)
                maxlen--;
        }

        len++; /* } */""", "EMIT.E2-accounting")
M("C14", "json: word not escaped in format_seg", DC, "    word = json_escape(seg_iter_word(seg));", "    word = ckd_salloc(seg_iter_word(seg) ? seg_iter_word(seg) : \"\");", "TAINT.E3-escaping")
M("C14", "json: duration without +1", DC, "    dur = (double)(ef + 1 - sf) / frate;", "    dur = (double)(ef - sf) / frate;", "PROV.E4-values")
M("C14", "json: alignment start without offset", DC, "    st = utt_start + (double)start / frate;", "    st = (double)start / frate;", "PROV.E4-values")
M("C14", "json: prob of different call", DC, "    prob = logmath_exp(lmath, seg_iter_prob(seg, NULL, NULL));", "    prob = logmath_exp(lmath, 0);", "PROV.E4-values")

# ---- C18 ----------------------------------------------------------------------
M("C18", "mel filters: zero-width filter not refused", "src/fe_sigproc.c", "        if (!(freqs[0] < freqs[1]) || !(freqs[1] < freqs[2])) {", "        if (0) {", "DIV.difference")
M("C18", "fe: log floor dropped", "src/fe_sigproc.c", "mfspec[i] = log(mfspec[i] + LOG_FLOOR);", "mfspec[i] = log(mfspec[i]);", "LOG.floor")
M("C18", "cmn_live_update: zero-count guard dropped (seed C18-1 core)", "src/cmn_live.c", """    if (cmn->nframe <= 0)
        return;

    E_INFO("Update from < %s >\\n", cmn->repr);
    /* Update mean buffer */""", """    E_INFO("Update from < %s >\\n", cmn->repr);
    /* Update mean buffer */""", "DIV.state")
M("C18", "cmn_live: shiftwin called unconditionally", "src/cmn_live.c", """    if (cmn->nframe > CMN_WIN_HWM)
        cmn_live_shiftwin(cmn);""", """    cmn_live_shiftwin(cmn);""", "DIV.state")
M("C18", "cmn_live: shiftwin guard on nfr instead of nframe", "src/cmn_live.c", """    if (cmn->nframe > CMN_WIN_HWM)
        cmn_live_shiftwin(cmn);""", """    if (nfr > CMN_WIN_HWM)
        cmn_live_shiftwin(cmn);""", "DIV.state")
M("C18", "cmn: revert zero-count fix", "src/cmn.c", """    if (cmn->nframe > 0) {
        for (i = 0; i < cmn->veclen; i++) {
            cmn->cmn_mean[i] = cmn->sum[i] / cmn->nframe;
        }
    }""", """    for (i = 0; i < cmn->veclen; i++) {
        cmn->cmn_mean[i] = cmn->sum[i] / cmn->nframe;
    }""", "DIV.state")
M("C18", "cmn: revert zero-variance fix", "src/cmn.c", """            if (cmn->cmn_var[i] > 0)
                cmn->cmn_var[i] = FLOAT2MFCC""", """            cmn->cmn_var[i] = FLOAT2MFCC""", "DIV.state")
M("C18", "cmn: count guard tests n_frame instead", "src/cmn.c", """    if (cmn->nframe > 0) {
        for (i = 0; i < cmn->veclen; i++) {""", """    if (n_frame > 0) {
        for (i = 0; i < cmn->veclen; i++) {""", "DIV.state")
M("C18", "cmn: count guard as != 0 (benign)", "src/cmn.c", """    if (cmn->nframe > 0) {
        for (i = 0; i < cmn->veclen; i++) {""", """    if (cmn->nframe != 0) {
        for (i = 0; i < cmn->veclen; i++) {""", None, "benign")
M("C18", "cmn_live_update: guard as < 1 (benign)", "src/cmn_live.c", """    if (cmn->nframe <= 0)
        return;

    E_INFO("Update from < %s >\\n", cmn->repr);
    /* Update mean buffer */""", """    if (cmn->nframe < 1)
        return;

    E_INFO("Update from < %s >\\n", cmn->repr);
    /* Update mean buffer */""", None, "benign")
M("C18", "noise: gain division unguarded", "src/fe_noise.c", """        if (noise_stats->signal[i] < noise_stats->max_gain * noise_stats->power[i])
            noise_stats->gain[i] = noise_stats->signal[i] / noise_stats->power[i];
        else
            noise_stats->gain[i] = noise_stats->max_gain;""", """        noise_stats->gain[i] = noise_stats->signal[i] / noise_stats->power[i];
        if (noise_stats->gain[i] > noise_stats->max_gain)
            noise_stats->gain[i] = noise_stats->max_gain;""", "DIV.state")
M("C18", "noise: signal floor dropped", "src/fe_noise.c", """        if (noise_stats->signal[i] < 1.0)
            noise_stats->signal[i] = 1.0;""", """        if (noise_stats->signal[i] < 0.0)
            noise_stats->signal[i] = 0.0;""", "DIV.state")
M("C18", "ptm eval_topn: range test dropped", "src/ptm_mgau.c", """        if (d < (mfcc_t)MAX_NEG_INT32)
            insertion_sort_topn(topn, i, MAX_NEG_INT32);
        else
            insertion_sort_topn(topn, i, (int32)d);""", """        insertion_sort_topn(topn, i, (int32)d);""", "CAST.range")
M("C18", "s2 eval_cb: range test dropped", "src/s2_semi_mgau.c", """        if (d < (mfcc_t)MAX_NEG_INT32)
            d_int = MAX_NEG_INT32;
        else
            d_int = (int32)d;""", """        d_int = (int32)d;""", "CAST.range")
M("C18", "ms senone_eval: range test on wrong element", "src/ms_senone.c", """            if (fdist[t].dist < (mfcc_t)MAX_NEG_INT32)""", """            if (fdist[0].dist < (mfcc_t)MAX_NEG_INT32)""", "CAST.range")
M("C18", "ptm norm: clamp dropped", "src/ptm_mgau.c", """                if (s->f->topn[i][j][k].score > MAX_NEG_ASCR)
                    s->f->topn[i][j][k].score = MAX_NEG_ASCR;""", """                ;""", "CLAMP.upper")
M("C18", "s2 norm: clamp before the negation", "src/s2_semi_mgau.c", """        s->f[feat][j].score = -((s->f[feat][j].score >> SENSCR_SHIFT) - norm);
        if (s->f[feat][j].score > MAX_NEG_ASCR)
            s->f[feat][j].score = MAX_NEG_ASCR;""", """        if (s->f[feat][j].score > MAX_NEG_ASCR)
            s->f[feat][j].score = MAX_NEG_ASCR;
        s->f[feat][j].score = -((s->f[feat][j].score >> SENSCR_SHIFT) - norm);""", "CLAMP.upper")
M("C18", "ms senone_eval: downscale after the clamp", "src/ms_senone.c", """    /* Downscale scores. */
    scr /= s->aw;

    /* Avoid overflowing int16 */
    if (scr > 32767)
        scr = 32767;
    if (scr < -32768)
        scr = -32768;
    return scr;""", """    /* Avoid overflowing int16 */
    if (scr > 32767)
        scr = 32767;
    if (scr < -32768)
        scr = -32768;
    /* Downscale scores. */
    scr *= s->aw;
    return scr;""", "CLAMP.upper")
M("C18", "ms mgau: active branch clamp dropped", "src/ms_mgau.c", """            int32 bs = senscr[s] - best;
            if (bs > 32767)
                bs = 32767;
            if (bs < -32768)
                bs = -32768;
            senscr[s] = bs;
            n = s;""", """            int32 bs = senscr[s] - best;
            if (bs < -32768)
                bs = -32768;
            senscr[s] = bs;
            n = s;""", "CLAMP.upper")
M("C18", "ptm frame_eval: norm only on evaluated frames (seed C18-2 core)", "src/ptm_mgau.c", """        ptm_mgau_codebook_norm(s, featbuf, frame);""", """        if (frame % s->ds_ratio == 0)
            ptm_mgau_codebook_norm(s, featbuf, frame);""", "NORM.frame")
M("C18", "ptm senone_eval: best score not tracked", "src/ptm_mgau.c", """        if (ascore < bestscore)
            bestscore = ascore;
        senone_scores[sen] = ascore;""", """        if (i == 0)
            bestscore = ascore;
        senone_scores[sen] = ascore;""", "NORM.frame")
M("C18", "ptm senone_eval: best subtracted from active only", "src/ptm_mgau.c", """    for (i = 0; i < s->n_sen; ++i) {
        senone_scores[i] -= bestscore;
    }""", """    for (i = 0; i < n_senone_active; ++i) {
        senone_scores[i] -= bestscore;
    }""", "NORM.frame")
M("C18", "s2 frame_eval: norm skipped on downsampled frames", "src/s2_semi_mgau.c", """            s->topn_hist_n[topn_idx][i] = mgau_norm(s, i);""", """            if (frame % s->ds_ratio == 0)
                s->topn_hist_n[topn_idx][i] = mgau_norm(s, i);""", "NORM.frame")
M("C18", "ms mgau: best taken before evaluation", "src/ms_mgau.c", """        for (s = 0; (uint32)s < sen->n_sen; s++) {
            senscr[s] = senone_eval(sen, s, msg->dist[sen->mgau[s]], topn);
            if (best > senscr[s]) {
                best = senscr[s];
            }
        }""", """        for (s = 0; (uint32)s < sen->n_sen; s++) {
            senscr[s] = senone_eval(sen, s, msg->dist[sen->mgau[s]], topn);
        }
        best = 0;""", "NORM.frame")
M("C18", "hmm 5st: s5 clamp dropped", "src/hmm.c", """        if (s5 WORSE_THAN WORST_SCORE)
            s5 = WORST_SCORE;
""", """""", "VIT.W")
M("C18", "aligner: renorm margin negative", "src/state_align_search.c", "if ((sas->best_score - 0x300000) WORSE_THAN WORST_SCORE) {", "if ((sas->best_score + 0x300000) WORSE_THAN WORST_SCORE) {", "RENORM")
M("C18", "hmm_normalize: floor scores shifted too", "src/hmm.c", """        if (hmm_score(h, i) BETTER_THAN WORST_SCORE)
            hmm_score(h, i) -= bestscr;""", """        hmm_score(h, i) -= bestscr;""", "RENORM")
M("C18", "cmn repr: passes use different formats", "src/cmn.c", """        ptr += snprintf(ptr, cmn->repr + len - ptr, "%g,",""", """        ptr += snprintf(ptr, cmn->repr + len - ptr, "%f,",""", "REPR")
M("C18", "cmn repr: import splits on semicolon", "src/cmn.c", """           && (cc = strchr(c, ',')) != NULL) {""", """           && (cc = strchr(c, ';')) != NULL) {""", "REPR")
M("C18", "cmn repr: import sets nframe to HWM", "src/cmn.c", """    ckd_free(vallist);
    cmn->nframe = CMN_WIN;""", """    ckd_free(vallist);
    cmn->nframe = CMN_WIN_HWM;""", "REPR")
M("C18", "cmn repr: import bound dropped", "src/cmn.c", """    while (nvals < cmn->veclen
           && (cc = strchr(c, ',')) != NULL) {""", """    while ((cc = strchr(c, ',')) != NULL) {""", "REPR")

# ---- C17 ----------------------------------------------------------------------
M("C17", "mdef: phone names walked with strlen again", "src/bin_mdef.c", """        nul = memchr(m->ciname[i - 1], '\\0', data_end - m->ciname[i - 1]);
        if (nul == NULL) {
            E_ERROR("ciname truncated!\\n");
            goto error_out;
        }
        m->ciname[i] = nul + 1;""", """        m->ciname[i] = m->ciname[i - 1] + strlen(m->ciname[i - 1]) + 1;
        if (m->ciname[i] > data_end) {
            E_ERROR("ciname truncated!\\n");
            goto error_out;
        }""", "SPAN.model-text")
M("C17", "acmod_free: scorer released without the NULL test", "src/acmod.c", """    if (acmod->mgau) /* FIXME: Should make this transparent */
        ps_mgau_free(acmod->mgau);""", """    ps_mgau_free(acmod->mgau);""", "UNWIND.partial")
M("C17", "mdef: phone truncation test only for mapped files", "src/bin_mdef.c", "    if ((m->phone + m->n_phone) > (mdef_entry_t *)data_end) {", "    if (m->alloc_mode == BIN_MDEF_ON_DISK\n        && (m->phone + m->n_phone) > (mdef_entry_t *)data_end) {", "REGION.checked")
M("C17", "mdef: tree truncation test skipped when swapping", "src/bin_mdef.c", "    if ((m->cd_tree + m->n_cd_tree) > (cd_tree_t *)data_end) {", "    if (!s->do_swap && (m->cd_tree + m->n_cd_tree) > (cd_tree_t *)data_end) {", "REGION.checked")
M("C17", "benign: truncation test compared in bytes", "src/bin_mdef.c", "    if ((m->phone + m->n_phone) > (mdef_entry_t *)data_end) {", "    if ((const char *)(m->phone + m->n_phone) > data_end) {", kind="benign")
M("C17", "tmat: revert double-free fix", "src/tmat.c", "    ckd_free_2d(tp);\n    tp = NULL;\n", "    ckd_free_2d(tp);\n", "UNWIND")
M("C17", "ms_mgau: revert NULL senone test", "src/ms_mgau.c", """    if ((s = msg->s = senone_init(msg->g,
                                  config_str(config, "mixw"),
                                  config_str(config, "senmgau"),
                                  config_float(config, "mixwfloor"),
                                  lmath, mdef))
        == NULL) {
        E_ERROR("Failed to read mixture weights\\n");
        goto error_out;
    }
""", """    s = msg->s = senone_init(msg->g,
                                  config_str(config, "mixw"),
                                  config_str(config, "senmgau"),
                                  config_float(config, "mixwfloor"),
                                  lmath, mdef);
""", "ERRD.null")
M("C17", "ptm: sendump_mmap set after read (revert)", "src/ptm_mgau.c", """        s->sendump_mmap = s3file_retain(sendump);
        if (read_sendump(sendump, s->g, s->n_sen,
                         &s->mixw_cb, &s->mixw)
            < 0)
            goto error_out;
""", """        if (read_sendump(sendump, s->g, s->n_sen,
                         &s->mixw_cb, &s->mixw)
            < 0)
            goto error_out;
        s->sendump_mmap = s3file_retain(sendump);
""", "UNWIND.partial")
M("C17", "mdef_init: version mismatch fatal again", "src/mdef.c", """        E_ERROR("Version error: Expecing %s, but read %s\\n",
                MODEL_DEF_VERSION, buf);
        fclose(fp);
        ckd_free(m);
        return NULL;
    }""", """        E_FATAL("Version error: Expecing %s, but read %s\\n",
                MODEL_DEF_VERSION, buf);
    }""", "EXIT.loader")
M("C17", "s3file_get_1d: fatal on zero size again", "src/s3file.c", """    if (*n_el == 0 || *n_el > (size_t)(s->end - s->ptr) / el_sz) {
        E_ERROR("Bad arraysize: %u\\n", *n_el);
        return -1;
    }""", """    if (*n_el <= 0)
        E_FATAL("Bad arraysize: %d\\n", *n_el);""", "EXIT.loader")
M("C17", "s3file_get_2d: dimension test dropped", "src/s3file.c", """    if (n != l_d1 * l_d2) {
        E_ERROR("array size %u does not match dimensions %u x %u\\n",
                n, l_d1, l_d2);
        ckd_free(raw);
        return -1;
    }
""", "", "INDEX.value")
M("C17", "s3file_get_3d: result compared with its own out-parameter", "src/s3file.c", """    if (s3file_get_1d(&raw, e_sz, &n, s) < 0) {
        E_ERROR("get(arraydata) failed");
        return -1;
    }
    if (n != l_d1 * l_d2 * l_d3) {""", """    if (s3file_get_1d(&raw, e_sz, &n, s) != (int32)n) {
        E_ERROR("get(arraydata) failed");
        return -1;
    }
    if (n != l_d1 * l_d2 * l_d3) {""", "INDEX.value")
M("C17", "bin_mdef_free: ciname test dropped", "src/bin_mdef.c", """        if (m->ciname)
            ckd_free(m->ciname[0]);
        if (m->sseq)""", """        ckd_free(m->ciname[0]);
        if (m->sseq)""", "UNWIND.partial")
M("C17", "bin_mdef: n_ciphone lower bound dropped", "src/bin_mdef.c", "    if (m->n_ciphone <= 0 || m->n_phone < m->n_ciphone", "    if (m->n_phone < m->n_ciphone", "TAINT.lower")
M("C17", "bin_mdef: n_sseq lower bound dropped", "src/bin_mdef.c", "|| m->n_tmat <= 0 || m->n_sseq <= 0 || m->n_sseq > BAD_SSID", "|| m->n_tmat <= 0 || m->n_sseq > BAD_SSID", "TAINT.lower")
M("C17", "bin_mdef: header length lower bound dropped", "src/bin_mdef.c", "    if (val < 0 || val > s->end - s->ptr) {", "    if (val > s->end - s->ptr) {", "TAINT.lower")
M("C17", "bin_mdef: header length not compared with the end", "src/bin_mdef.c", "    if (val < 0 || val > s->end - s->ptr) {", "    if (val < 0) {", "CURSOR")
M("C17", "bin_mdef: senone index test dropped", "src/bin_mdef.c", """            if (s >= m->n_sen) {
                E_ERROR("Senone sequence %d has bad senone %d\\n", ssid, s);
                goto error_out;
            }
""", "", "INDEX.value")
M("C17", "bin_mdef: ssid test dropped", "src/bin_mdef.c", "        if (ssid < 0 || ssid >= m->n_sseq || ci >= m->n_ciphone) {", "        if (ci >= m->n_ciphone) {", "INDEX.value")
M("C17", "sendump: header length lower bound dropped", "src/ptm_mgau.c", "    if (n < 1 || s3f->ptr + n > s3f->end) {", "    if (s3f->ptr + n > s3f->end) {", "TAINT.lower")
M("C17", "sendump: string length lower bound dropped", "src/ptm_mgau.c", "        if (n < 0 || s3f->ptr + n > s3f->end) {", "        if (s3f->ptr + n > s3f->end) {", "TAINT.lower")
M("C17", "sendump: rows test dropped", "src/ptm_mgau.c", "        if (r != n_density || c < n_sen) {", "        if (c < n_sen) {", "INDEX.dims")
M("C17", "sendump: title end test dropped", "src/ptm_mgau.c", """    if (s3f->ptr + n > s3f->end) {
        E_ERROR("Title truncated, cannot read %d bytes", n);
        return -1;
    }
""", "", "CURSOR")
M("C17", "gauden: density read failure falls through + counts unchecked", "src/ms_gauden.c", """    if (n_mgau <= 0 || n_feat <= 0 || n_density <= 0) {
        E_ERROR("Bad dimensions: %d codebooks, %d features, %d densities\\n",
                n_mgau, n_feat, n_density);
        return NULL;
    }
""", "", "TAINT.lower")
M("C17", "gauden: failed read of feature lengths ignored", "src/ms_gauden.c", """        E_ERROR("read (feature-lengths) failed\\n");
        return NULL;""", """        E_ERROR("read (feature-lengths) failed\\n");""", "ERRD.read")
M("C17", "tmat: count lower bounds dropped", "src/tmat.c", "    if (n_tmat <= 0 || n_src <= 0) {", "    if (n_tmat == 0) {", "TAINT.lower")
M("C17", "tmat: topology fatal again", "src/tmat.c", """        E_ERROR("Tmat not upper triangular\\n");
        goto error_out;""", """        E_FATAL("Tmat not upper triangular\\n");""", "EXIT.loader")
M("C17", "acmod: tmat_init result not tested", "src/acmod.c", """    if ((acmod->tmat = tmat_init(tmatfn, acmod->lmath,
                                 config_float(acmod->config, "tmatfloor")))
        == NULL) {
        E_ERROR("Failed to read transition matrices from %s\\n", tmatfn);
        return -1;
    }""", """    acmod->tmat = tmat_init(tmatfn, acmod->lmath,
                                 config_float(acmod->config, "tmatfloor"));""", "ERRD.null")
M("C17", "read_mixw: component test dropped", "src/ptm_mgau.c", """    if (n_comp != g->n_density) {
        E_ERROR("#Mixture components(%d) != %d\\n", n_comp, g->n_density);
        return -1;
    }
""", "", "INDEX.dims")
M("C17", "ms_mgau: mismatch fatal again", "src/ms_mgau.c", """    if (s->n_cw != (uint32)g->n_density) {
        E_ERROR("#Densities mismatch: gauden= %d, senone= %d\\n",
                g->n_density, s->n_cw);
        goto error_out;
    }""", """    if (s->n_cw != (uint32)g->n_density)
        E_FATAL("#Densities mismatch: gauden= %d, senone= %d\\n",
                g->n_density, s->n_cw);""", "EXIT.loader", first=True)
M("C17", "senone_mixw_read: row buffer leaked on success", "src/ms_senone.c", """           s->n_sen, s->n_feat, s->n_cw);
    ckd_free(pdf);
    return 0;""", """           s->n_sen, s->n_feat, s->n_cw);
    return 0;""", "UNWIND")
M("C17", "senone: one-senone fatal again", "src/ms_senone.c", """                E_ERROR("#senone=%d; must be >1\\n", s->n_sen);
                goto error_out;""", """                E_FATAL("#senone=%d; must be >1\\n", s->n_sen);""", "EXIT.loader")
M("C17", "lda: checksum result ignored", "src/lda.c", """    if (s3file_verify_chksum(s) != 0) {
        ckd_free_3d(outlda);
        return -1;
    }""", """    s3file_verify_chksum(s);""", "ERRD.read")
M("C17", "new raw cursor writer outside the audited set", "src/lda.c", """    if (s3file_parse_header(s, MATRIX_FILE_VERSION) < 0) {""", """    s->ptr += 0;
    if (s3file_parse_header(s, MATRIX_FILE_VERSION) < 0) {""", "CURSOR")
M("C17", "tmat: new exit on file value", "src/tmat.c", """    t->n_state = n_src;
""", """    t->n_state = n_src;
    if (n_src > 100)
        E_FATAL("too many states\\n");
""", "EXIT.loader")
M("C17", "benign: gauden count test as < 1", "src/ms_gauden.c", "    if (n_mgau <= 0 || n_feat <= 0 || n_density <= 0) {", "    if (n_mgau < 1 || n_feat < 1 || n_density < 1) {", None, "benign")

# ---- C10 ----------------------------------------------------------------------
M("C10", "tag_trans: fatal again", "src/fsg_model.c", """        E_ERROR("Null transition prob must be <= 1.0 (state %d -> %d), "
                "using 1.0\\n",
                from, to);
        logp = 0;""", """        E_FATAL("Null transition prob must be <= 1.0 (state %d -> %d)\\n",
                from, to);""", "EXIT.input")
M("C10", "dict: new exit on a malformed line", "src/dict.c", """            E_ERROR("Line %d: No pronunciation for word '%s'; ignored\\n",
                    lineno, word);""", """            E_FATAL("Line %d: No pronunciation for word '%s'\\n",
                    lineno, word);""", "EXIT.input")
M("C10", "decoder_init_grammar: fsg freed after failed set_fsg (revert)", "src/decoder.c", """        /* decoder_set_fsg() consumes fsg, also when it fails. */
        if (decoder_set_fsg(d, fsg) != 0)
            return -1;""", """        if (decoder_set_fsg(d, fsg) != 0) {
            fsg_model_free(fsg);
            return -1;
        }""", "OWN.consume", first=True)
M("C10", "set_align_text: fsg used after set_fsg", "src/decoder.c", """    /* decoder_set_fsg() consumes fsg, also when it fails. */
    if (decoder_set_fsg(d, fsg) < 0)
        return -1;
    return 0;""", """    if (decoder_set_fsg(d, fsg) < 0)
        return -1;
    return fsg_model_n_word(fsg) > 0 ? 0 : -1;""", "OWN.consume")
M("C10", "fsg reader: word freed but not cleared (seed C10-1 core)", "src/fsg_model.c", """                } else {
                    ckd_free(val);
                }
                val = NULL; /* Do not free it one way or the other */""", """                    val = NULL;
                } else {
                    ckd_free(val);
                }""", "UNWIND")
M("C10", "fsg reader: from-state converted in place again", "src/fsg_model.c", """            i = (int)strtol(val, &endptr, 10);
            if (endptr == val || i < 0 || i >= fsg->n_state) {""", """            i = (int)strtol(word, &endptr, 10);
            if (endptr == word || i < 0 || i >= fsg->n_state) {""", "SPAN")
M("C10", "fsg reader: upper bound of to-state dropped", "src/fsg_model.c", "            if (endptr == val || j < 0 || j >= fsg->n_state) {", "            if (endptr == val || j < 0) {", "NUM.range")
M("C10", "fsg reader: lower bound of from-state dropped", "src/fsg_model.c", "            if (endptr == val || i < 0 || i >= fsg->n_state) {", "            if (endptr == val || i >= fsg->n_state) {", "NUM.range")
M("C10", "fsg reader: probability upper bound dropped", "src/fsg_model.c", "            if ((p <= 0.0) || (p > 1.0)) {", "            if (p <= 0.0) {", "NUM.range")
M("C10", "fsg reader: final state not range-tested", "src/fsg_model.c", "    if (endptr == val || fsg->final_state < 0 || fsg->final_state >= fsg->n_state) {", "    if (endptr == val || fsg->final_state < 0) {", "NUM.range")
M("C10", "fsg reader: negative state count accepted", "src/fsg_model.c", "    if (endptr == val || n_state < 0) {", "    if (endptr == val) {", "NUM.range")
M("C10", "dict: word copy leaked when the line has no pronunciation", "src/dict.c", """                    lineno, word);
            ckd_free(word);
            continue;""", """                    lineno, word);
            continue;""", "UNWIND")
M("C10", "dict: comment test without the length test (revert)", "src/dict.c", """    return dict->ptr - line >= 2
        && (0 == strncmp(line, "##", 2) || 0 == strncmp(line, ";;", 2));""", """    return (0 == strncmp(line, "##", 2) || 0 == strncmp(line, ";;", 2));""", "SPAN")
M("C10", "dict: length test too short", "src/dict.c", "    return dict->ptr - line >= 2\n", "    return dict->ptr - line >= 1\n", "SPAN")
M("C10", "dict: buffer sized from an empty first line (revert)", "src/dict.c", """        if (nwd == 0) /* Empty line */
            continue;
        if (p == NULL) {
            maxwd = nwd * 2; /* Some extra space */
            p = ckd_calloc(maxwd, sizeof(*p));
        }""", """        if (p == NULL) {
            maxwd = nwd * 2; /* Some extra space */
            p = ckd_calloc(maxwd, sizeof(*p));
        }
        if (nwd == 0) /* Empty line */
            continue;""", "LOOP.growth")
M("C10", "fe: window bound back to 32767 (revert)", "src/fe_interface.c", "    if (window_samples > (MAX_INT16 + 1) / 2) {", "    if (window_samples > MAX_INT16) {", "LOOP.growth")
M("C10", "grammar_s3file: cursor parsed as C string (revert)", "src/decoder.c", "        rv = decoder_set_jsgf_string(d, jsgf_string);", "        rv = decoder_set_jsgf_string(d, jsgf_file->ptr);", "SPAN")
M("C10", "config: measure forgets form feed", "src/config.c", """        case '\\b':
        case '\\f':
        case '\\n':
        case '\\r':
        case '\\t':

            measured_length += 2;""", """        case '\\b':
        case '\\n':
        case '\\r':
        case '\\t':

            measured_length += 2;""", "EMIT.config")
M("C10", "config: key prefix counted short", "src/config.c", "    len += 2; /* \\t\\\" */", "    len += 1; /* \\t\\\" */", "EMIT.config")
M("C10", "config: value suffix writes one more", "src/config.c", """        *ptr++ = '"';
        *ptr++ = ',';
        *ptr++ = '\\n';
        maxlen -= 3;""", """        *ptr++ = '"';
        *ptr++ = ',';
        *ptr++ = ' ';
        *ptr++ = '\\n';
        maxlen -= 3;""", "EMIT.config")
M("C10", "set_jsgf_string: parse result not tested", "src/decoder.c", """    jsgf_t *jsgf = jsgf_parse_string(jsgf_string, NULL);
    float lw;
    int result;

    if (!jsgf)
        return -1;
""", """    jsgf_t *jsgf = jsgf_parse_string(jsgf_string, NULL);
    float lw;
    int result;

""", "ERRD.null")
M("C10", "benign: dict length test as > 1", "src/dict.c", "    return dict->ptr - line >= 2\n", "    return dict->ptr - line > 1\n", None, "benign")

# ---- C09 ----------------------------------------------------------------------
M("C09", "seg iter: walks the history block instead of an array of its own", "src/fsg_search.c", "    itor->hist = ckd_calloc(itor->n_hist, sizeof(*itor->hist));", "    itor->hist = (fsg_hist_entry_t **)fsgs->history->entries;", "OWN.iter-array")
M("C09", "process: ENDED accepted again (revert)", "src/decoder.c", "    if (d->acmod->state == ACMOD_IDLE || d->acmod->state == ACMOD_ENDED) {", "    if (d->acmod->state == ACMOD_IDLE) {", "STATE.guards", first=True)
M("C09", "start_utt: PROCESSING accepted (seed C09-2 core)", "src/decoder.c", "    if (d->acmod->state == ACMOD_STARTED || d->acmod->state == ACMOD_PROCESSING) {", "    if (d->acmod->state == ACMOD_STARTED) {", "STATE.guards")
M("C09", "end_utt: refuses STARTED too", "src/decoder.c", "    if (d->acmod->state == ACMOD_ENDED || d->acmod->state == ACMOD_IDLE) {", "    if (d->acmod->state != ACMOD_PROCESSING) {", "STATE.guards")
M("C09", "end_utt: refusal returns 0", "src/decoder.c", """        E_ERROR("Utterance is not started\\n");
        return -1;""", """        E_ERROR("Utterance is not started\\n");
        return 0;""", "STATE.guards")
M("C09", "start_utt: search test dropped", "src/decoder.c", """    if (d->search == NULL) {
        E_ERROR("No search module is selected, did you forget to "
                "specify a language model or grammar?\\n");
        return -1;
    }

    ptmr_reset(&d->perf);""", """    ptmr_reset(&d->perf);""", "NULL.fields")
M("C09", "alignment: zero-word test dropped (revert)", "src/decoder.c", """    if (alignment_n_words(al) == 0) {
        alignment_free(al);
        return NULL;
    }
""", "", "EMPTY.align")
M("C09", "alignment: alignment freed twice when populate fails", "src/decoder.c", """        /* Not yet owned by the search module so we must free it */
        alignment_free(al);
        return NULL;""", """        /* Not yet owned by the search module so we must free it */
        alignment_free(al);
        alignment_free(al);
        return NULL;""", "UNWIND")
M("C09", "jsgf_parse_file: file left open on failure (revert)", "src/jsgf.c", """        jsgf_grammar_free(jsgf);
        if (in)
            fclose(in);
        yylex_destroy(yyscanner);
        return NULL;""", """        jsgf_grammar_free(jsgf);
        yylex_destroy(yyscanner);
        return NULL;""", "UNWIND")
M("C09", "add_word: pron array sized in bytes (revert)", "src/decoder.c", "    pron = ckd_calloc(strlen(phones) + 1, sizeof(*pron));", "    pron = ckd_calloc(1, strlen(phones));", "ALLOCSZ")
M("C09", "dict: base string of an empty word", "src/dict.c", "    if (len > 0 && word[len - 1] == ')') {", "    if (word[len - 1] == ')') {", "LEN.nonempty")
M("C09", "new exit on the decode path", "src/decoder.c", """    if (no_search)
        acmod_set_grow(d->acmod, TRUE);""", """    if (n_samples > 100000000)
        E_FATAL("too much audio\\n");
    if (no_search)
        acmod_set_grow(d->acmod, TRUE);""", "EXIT.api", first=True)
M("C09", "set_fsg: fsg used after fsg_search_init", "src/decoder.c", """    search = fsg_search_init(fsg->name, fsg, d->config, d->acmod, d->dict, d->d2p);
    if (search == NULL)
        return -1;""", """    search = fsg_search_init(fsg->name, fsg, d->config, d->acmod, d->dict, d->d2p);
    if (search == NULL) {
        E_ERROR("Failed to use grammar %s\\n", fsg->name);
        return -1;
    }""", "OWN.consume")
M("C09", "json: sizing forgets the empty segment list (seed C09-1 core)", "src/decoder.c", """        seg_iter_t *itor = decoder_seg_iter(d);
        if (itor == NULL)
            maxlen++; /* ] at end */""", """        seg_iter_t *itor = decoder_seg_iter(d);""", "EMIT.E1-two-passes")

# ---- later additions (configuration ranges, discarded status, containers, seeds of round 2) ----
M("C10", "ptm: ds test dropped (revert)", "src/ptm_mgau.c", """    if (s->ds_ratio < 1) {
        E_ERROR("Frame downsampling ratio must be at least 1 (is %d)\\n",
                s->ds_ratio);
        goto error_out;
    }
""", "", "CONFIG.range")
M("C10", "s2: topn lower bound dropped", "src/s2_semi_mgau.c", "    if (s->max_topn < 1 || s->max_topn > s->g->n_density) {", "    if (s->max_topn > s->g->n_density) {", "CONFIG.range")
M("C10", "fe: nfilt test dropped (revert)", "src/fe_interface.c", """    if (mel->num_filters < 1) {
        E_ERROR("Number of filters must be at least 1 (is %d)\\n",
                mel->num_filters);
        return -1;
    }
""", "", "CONFIG.range")
M("C10", "fe: ncep test dropped (revert)", "src/fe_interface.c", """    if (config_int(config, "ncep") < 1 || config_int(config, "ncep") > 255) {
        E_ERROR("Number of cepstra must be between 1 and 255 (is %ld)\\n",
                config_int(config, "ncep"));
        return -1;
    }
""", "", "CONFIG.range")
M("C10", "ms: aw test dropped (revert)", "src/ms_mgau.c", """    if (s->aw < 1) {
        E_ERROR("Inverse acoustic weight must be at least 1 (is %d)\\n", s->aw);
        goto error_out;
    }
""", "", "CONFIG.range", first=True)
M("C10", "ms: negative topn passes again (revert)", "src/ms_mgau.c", "    if (msg->topn <= 0 || msg->topn > msg->g->n_density) {", "    if (msg->topn == 0 || msg->topn > msg->g->n_density) {", "CONFIG.range", first=True)
M("C10", "feat: negative ceplen accepted (revert)", "src/feat.c", """    if (cepsize < 0) {
        E_ERROR("Length of the input vectors must not be negative (is %d)\\n",
                cepsize);
        return NULL;
    }
""", "", "CONFIG.range")
M("C10", "benign: ds test as <= 0", "src/ptm_mgau.c", "    if (s->ds_ratio < 1) {", "    if (s->ds_ratio <= 0) {", None, "benign")
M("C10", "fe_init: filterbank result ignored (revert)", "src/fe_interface.c", """    if (fe_build_melfilters(fe->mel_fb) != FE_SUCCESS) {
        E_ERROR("Failed to build the mel filterbank\\n");
        fe_free(fe);
        return NULL;
    }""", """    fe_build_melfilters(fe->mel_fb);""", "ERRD.status")
M("C10", "decoder_reinit: feature set-up result ignored", "src/decoder.c", """    if (config)
        if (decoder_init_config(d, config) < 0)
            return -1;""", """    if (config)
        decoder_init_config(d, config);""", "ERRD.status")
M("C10", "jsgf import: failed parse entered into the table (revert)", "src/jsgf.c", """        if (imp == NULL) {
            E_ERROR("Failed to import %s from %s\\n", name, path);
            ckd_free(path);
            return NULL;
        }
""", "", "ERRD.null")
M("C17", "sendump: single 32-bit size test instead of per-row tests (seed C17-3 core)", "src/ptm_mgau.c", """            s3f->ptr += step;
            if (s3f->ptr > s3f->end) {
                E_ERROR("Mixture weights for feature %d truncated\\n", n);
                return -1;
            }""", """            s3f->ptr += step;""", "CURSOR")
M("C18", "ptm norm: skipped on down-sampled frames inside the normaliser (seed C18-3 core)", "src/ptm_mgau.c", """    (void)z;
    (void)frame;
    for (j = 0; j < s->g->n_feat; ++j) {
        int32 norm = WORST_SCORE;""", """    (void)z;
    if (frame % s->ds_ratio)
        return 0;
    for (j = 0; j < s->g->n_feat; ++j) {
        int32 norm = WORST_SCORE;""", "NORM.frame")
M("C18", "cmn repr: writing loop stops when the buffer is full", "src/cmn.c", """    for (i = 0; i < cmn->veclen; ++i)
        ptr += snprintf(ptr, cmn->repr + len - ptr, "%g,",
                        MFCC2FLOAT(cmn->cmn_mean[i]));""", """    for (i = 0; i < cmn->veclen; ++i) {
        if (cmn->repr + len - ptr < 16)
            break;
        ptr += snprintf(ptr, cmn->repr + len - ptr, "%g,",
                        MFCC2FLOAT(cmn->cmn_mean[i]));
    }""", "REPR")
M("C09", "lattice: stored in the search before it is complete (seed C09-3 core)", "src/fsg_search.c", """    lattice_free(search->dag);
    search->dag = NULL;
    dag = lattice_init_search(search, fsgs->frame);""", """    lattice_free(search->dag);
    search->dag = dag = lattice_init_search(search, fsgs->frame);""", "UNWIND")
M("C09", "align text: counting pass splits on blanks only", "src/decoder.c", """    while ((n = nextword(ptr, " \\t\\n\\r", &word, &delimfound)) >= 0) {
        int wid;
        if ((wid = dict_wordid(d->dict, word)) == BAD_S3WID) {
            E_ERROR("Unknown word %s\\n", word);
            ckd_free(textbuf);
            return -1;
        }
        ptr = word + n;
        *ptr = delimfound;
        ++nwords;
    }
    /* Second pass: make fsg */""", """    while ((n = nextword(ptr, " ", &word, &delimfound)) >= 0) {
        int wid;
        if ((wid = dict_wordid(d->dict, word)) == BAD_S3WID) {
            E_ERROR("Unknown word %s\\n", word);
            ckd_free(textbuf);
            return -1;
        }
        ptr = word + n;
        *ptr = delimfound;
        ++nwords;
    }
    /* Second pass: make fsg */""", "TWIN.align-text")
M("C09", "align text: one state too few", "src/decoder.c", """                         config_float(d->config, "lw"),
                         nwords + 1);""", """                         config_float(d->config, "lw"),
                         nwords);""", "TWIN.align-text")
M("C17", "sendump: unterminated strings searched again (revert)", "src/ptm_mgau.c", """        if (s3f->ptr[n - 1] != '\\0') {
            s3f->ptr += n;
            continue;
        }
""", "", "SPAN")
M("C17", "s3 header: magic compared without the length test (revert)", "src/s3file.c", """    if (s->ptr - line >= 3 && strncmp(line, "s3\\n", 3) == 0) {""", """    if (strncmp(line, "s3\\n", 3) == 0) {""", "SPAN")
M("C05", "jsgf: recursion below a mark accepted again (revert)", "src/jsgf.c", "                if (gnode_next(gn) != NULL || embedded) {", "                if (gnode_next(gn) != NULL) {", "GUARD.J5-recursion")
M("C05", "jsgf: mid-sequence rule not marked", "src/jsgf.c", """                if (gnode_next(gn) != NULL)
                    grammar->rulestack = glist_add_ptr(grammar->rulestack, NULL);
                rv = expand_rule(grammar, subrule);
                if (gnode_next(gn) != NULL)
                    grammar->rulestack = gnode_free(grammar->rulestack, NULL);""", """                rv = expand_rule(grammar, subrule);""", "GUARD.J5-recursion")
M("C05", "jsgf: links cleared only after conversion (seed C05-3 core)", "src/jsgf.c", """    glist_free(grammar->links);
    grammar->links = NULL;
    rule->entry = rule->exit = 0;""", """    rule->entry = rule->exit = 0;""", "PAIR.J8-fresh-build")
M("C08", "cmn import: vectors no longer cleared (seed C08-3 core)", "src/cmn.c", """    memset(cmn->cmn_mean, 0, sizeof(cmn->cmn_mean[0]) * cmn->veclen);
    memset(cmn->sum, 0, sizeof(cmn->sum[0]) * cmn->veclen);
    vallist = ckd_salloc(repr);""", """    vallist = ckd_salloc(repr);""", "RESET.G4-cmn-import")
M("C03", "decoder_hyp: remembered hypothesis handed out", "src/decoder.c", """    ptmr_start(&d->perf);
    hyp = search_module_hyp(d->search, out_best_score);""", """    if (d->search->hyp_str && out_best_score == NULL)
        return d->search->hyp_str;
    ptmr_start(&d->perf);
    hyp = search_module_hyp(d->search, out_best_score);""", "PROV.S8-no-stale-result")
M("C07", "feat live: cmn before the limiter (seed C07-3 core)", "src/feat.c", """    /* Only consume as much input as will fit in the buffer. */""", """    feat_cmn(fcb, uttcep, *inout_ncep, beginutt, endutt);
    /* Only consume as much input as will fit in the buffer. */""", "ORDER.cmn-after-limit")
M("C11", "lattice: frame count rewritten by find_end_node (seed C11-3 core)", "src/fsg_search.c", """        node = last;
        if (node)
            E_INFO(""", """        node = last;
        if (node)
            dag->n_frames = ef + 1;
        if (node)
            E_INFO(""", "GUARD.L3-cache")
M("C14", "json_escape: control test on a signed value (seed C14-3 core)", "src/decoder.c", "        else if (*in < 0x20)\n", "        else if ((char)*in < 0x20)\n", "TAINT.E3-escaping")
M("C14", "json: segmentation list only when there is a hypothesis", "src/decoder.c", """    } else {
        seg_iter_t *itor = decoder_seg_iter(d);
        if (itor == NULL)
            maxlen++; /* ] at end */""", """    } else {
        seg_iter_t *itor = decoder_hyp(d, NULL) ? decoder_seg_iter(d) : NULL;
        if (itor == NULL)
            maxlen++; /* ] at end */""", "EMIT.E1-two-passes")
M("C15", "vad: values stored before they are validated (seed C15-4 core)", "src/ps_vad.c", """    frame_size = (size_t)(closest_sample_rate * frame_length);
    if (closest_sample_rate != sample_rate) {""", """    frame_size = (size_t)(closest_sample_rate * frame_length);
    vad->frame_size = frame_size;
    if (closest_sample_rate != sample_rate) {""", "EFFECT.vad-params")
M("C19", "logmath_add: zero tests only without a table (seed C19-3 core)", "src/logmath.c", """    if (logb_x <= lmath->zero)
        return logb_y;
    if (logb_y <= lmath->zero)
        return logb_x;

    if (t->table == NULL)
        return logmath_add_exact(lmath, logb_x, logb_y);
""", """    if (t->table == NULL) {
        if (logb_x <= lmath->zero)
            return logb_y;
        if (logb_y <= lmath->zero)
            return logb_x;
        return logmath_add_exact(lmath, logb_x, logb_y);
    }
""", "TWIN.symmetry")

# ---- clauses added after the third seeding round ---------------------------------------------
M("C02", "lextree: filler node keeps its own phone as external context (seed C02-5 core)", "src/fsg_lextree.c", "pnode->ci_ext = silcipid; /* Presents SIL as context to neighbors */", "pnode->ci_ext = ci;", "CTX.external-phone")
M("C02", "search: grammar word id used as a dictionary index (seed C02-6 core)", "src/fsg_search.c", """        || (dict_is_single_phone(search_module_dict(fsgs),
                                 dict_wordid(search_module_dict(fsgs),
                                             fsg_model_word_str(fsgs->fsg, wid))))) {""", """        || dict_is_single_phone(search_module_dict(fsgs), wid)) {""", "ROLE.id-space")
M("C04", "state align: last phone's end bound lifted after the loop (seed C04-5 core)", "src/state_align_search.c", """            sas->ef[i] = INT_MAX; /* Always active */
    }
    return search_module_base(sas);""", """            sas->ef[i] = INT_MAX; /* Always active */
    }
    if (sas->n_phones > 0)
        sas->ef[sas->n_phones - 1] = INT_MAX;
    return search_module_base(sas);""", "PROV.A5-constraints")
M("C11", "find_node: fillers match whatever the state (seed C11-5 core)", "src/fsg_search.c", "if ((node->sf == sf) && (node->wid == wid) && (node->node_id == node_id))", "if ((node->sf == sf) && (node->wid == wid) && (fsg_model_is_filler(fsg, wid) || node->node_id == node_id))", "GUARD.L4-nodes")
M("C11", "find_node: gives up on a match", "src/fsg_search.c", """        if ((node->sf == sf) && (node->wid == wid) && (node->node_id == node_id))
            break;
    return node;""", """        if ((node->sf == sf) && (node->wid == wid) && (node->node_id == node_id))
            break;
    return node && node->next ? node : NULL;""", "GUARD.L4-nodes")
M("C11", "find_end_node: candidates restricted to the final state (seed C11-6 core)", "src/fsg_search.c", "        if (node->lef == dag->n_frames - 1 && node->entries) {", "        if (node->lef == dag->n_frames - 1 && node->entries\n            && node->node_id == fsg_model_final_state(fsgs->fsg)) {", "GUARD.L4-nodes")
M("C12", "traverse: fan-in reset in the counting loop (seed C12-6 core)", "src/ps_lattice.c", """    for (node = dag->nodes; node; node = node->next)
        node->info.fanin = 0;
    for (node = dag->nodes; node; node = node->next) {
        for (x = node->exits; x; x = x->next)
            (x->link->to->info.fanin)++;
    }""", """    for (node = dag->nodes; node; node = node->next) {
        node->info.fanin = 0;
        for (x = node->exits; x; x = x->next)
            (x->link->to->info.fanin)++;
    }""", "TWIN.P4-traversal")
M("C18", "acmod_score: cached scores reused for a partial senone set (seed C18-6 core)", "src/acmod.c", """    if ((acmod->compallsen)
        && frame_idx == acmod->senscr_frame) {""", """    if (frame_idx == acmod->senscr_frame) {""", "GUARD.score-cache")
M("C19", "logmath_init: table entries truncated instead of rounded (seed C19-5 core)", "src/logmath.c", "        int32 k = (int32)(lobyx + 0.5 * (1 << shift)) >> shift; /* Round to shift */\n        uint32 prev = 0;", "        int32 k = (int32)(lobyx) >> shift;\n        uint32 prev = 0;", "TWIN.table-passes")
M("C19", "benign: rounding term first", "src/logmath.c", "        int32 k = (int32)(lobyx + 0.5 * (1 << shift)) >> shift; /* Round to shift */\n        uint32 prev = 0;", "        int32 k = (int32)(0.5 * (1 << shift) + lobyx) >> shift;\n        uint32 prev = 0;", kind="benign")
M("C20", "keycmp_case: stops at a NUL byte (seed C20-5 core)", "src/hash_table.c", """    str = entry->key;
    for (i = 0; (uint32)i < entry->len; i++) {
        c1 = *(str++);
        c2 = *(key++);
        if (c1 != c2)
            return (c1 - c2);
    }

    return 0;
}

/*
 * Lookup""", """    str = entry->key;
    (void)c1; (void)c2; (void)i;
    return strncmp(str, key, entry->len);
}

/*
 * Lookup""", "GUARD.len-first")
M("C14", "json: suffix sized as two bytes", "src/decoder.c", "    maxlen++; /* final } */\n    maxlen++; /* trailing \\n */\n    maxlen++; /* trailing \\0 */", "    maxlen += 2; /* final }, trailing \\n */", "EMIT.E1-two-passes")
M("C14", "benign: suffix sized in one step", "src/decoder.c", "    maxlen++; /* final } */\n    maxlen++; /* trailing \\n */\n    maxlen++; /* trailing \\0 */", "    maxlen += 3;", kind="benign")
M("C10", "fsg reader: to-state tested against the wrong bound through a status", "src/fsg_model.c", "            if (endptr == val || j < 0 || j >= fsg->n_state) {", "            if (endptr == val || j < 0) {", "NUM.range")
M("C10", "dict reader: a word without phones is no longer refused (seed C10-5 core)", "src/dict.c", "        if (nwd == 1) {\n            E_ERROR(\"Line %d: No pronunciation", "        if (nwd < 1) {\n            E_ERROR(\"Line %d: No pronunciation", "NUM.pron-length")
M("C10", "benign: pronunciation refusal written as a range test", "src/dict.c", "        if (nwd == 1) {\n            E_ERROR(\"Line %d: No pronunciation", "        if (nwd < 2) {\n            E_ERROR(\"Line %d: No pronunciation", kind="benign")

# ---- clauses added after the fourth seeding round --------------------------------------------
M("C15", "endpointer_process: window dropped at segment end without the clock (seed C15-8 core)", EP, "            ep->in_speech = FALSE;\n            return pcm;", "            ep->in_speech = FALSE;\n            ep_clear(ep);\n            return pcm;", "PAIR.clock")
M("C06", "fe_process: nothing done when no new samples are given (seed C06-8 core)", "src/fe_interface.c", "    /* Are there not enough samples to make at least 1 frame? */\n    if (*inout_nsamps + fe->num_overflow_samps < (size_t)fe->frame_size)", "    if (*inout_nsamps == 0)\n        return 0;\n    /* Are there not enough samples to make at least 1 frame? */\n    if (*inout_nsamps + fe->num_overflow_samps < (size_t)fe->frame_size)", "PAIR.I2-frames")
M("C06", "benign: room test written the other way round", "src/fe_interface.c", "    if (nframes < 1)\n        return 0;\n\n    /* Keep track", "    if (!(nframes >= 1))\n        return 0;\n\n    /* Keep track", kind="benign")
M("C10", "unescape: looks two bytes ahead", "src/config.c", "            switch (in[i + 1]) {\n            case '\"':\n                *ptr++ = '\"';", "            switch (in[i + 1]) {\n            case 'u':\n                if (in[i + 2] == '0') i++;\n                *ptr++ = c;\n                break;\n            case '\"':\n                *ptr++ = '\"';", "SPAN.unescape")
M("C10", "unescape: span handed to a string primitive", "src/config.c", "            default:\n                E_WARN(\"Unsupported escape sequence \\\\%c\\n\", in[i + 1]);\n                *ptr++ = c;\n            }", "            default:\n                E_WARN(\"Unsupported escape sequence \\\\%c\\n\", in[i + 1]);\n                if (strchr(in + i, 'u') != NULL)\n                    i++;\n                *ptr++ = c;\n            }", "SPAN.unescape")
M("C10", "benign: unescape through a position pointer", "src/config.c", "        int c = in[i];\n        if (c == '\\\\') {\n            switch (in[i + 1]) {", "        const char *pos = in + i;\n        int c = pos[0];\n        if (c == '\\\\') {\n            switch (pos[1]) {", kind="benign")
M("C10", "align text: states sized by counting blanks (seed C10-8 core)", "src/decoder.c", "                         nwords + 1);\n    nwords = 0;", "                         (int)strlen(textbuf) / 2 + 1);\n    nwords = 0;", "TWIN.align-text")
M("C09", "revert d75e02b: decoder_init_dict leaves d->d2p dangling", "src/decoder.c", "    dict2pid_free(d->d2p);\n    d->d2p = NULL;\n    /* Dictionary and triphone mappings (depends on acmod). */\n    /* FIXME: pass config, change arguments, implement LTS, etc. */\n    if ((d->dict = dict_init(d->config", "    dict2pid_free(d->d2p);\n    /* Dictionary and triphone mappings (depends on acmod). */\n    /* FIXME: pass config, change arguments, implement LTS, etc. */\n    if ((d->dict = dict_init(d->config", "FIELD.released")
M("C09", "decoder_alignment: stale aligner released before the early returns (seed C09-8 core)", "src/decoder.c", "            return align->al;\n        }\n    }\n    seg = decoder_seg_iter(d);", "            return align->al;\n        }\n        search_module_free(d->align);\n    }\n    seg = decoder_seg_iter(d);", "FIELD.released")
M("C09", "benign: released field reset at once", "src/decoder.c", "    if (d->align)\n        search_module_free(d->align);\n    d->align = state_align_search_init(", "    if (d->align) {\n        search_module_free(d->align);\n        d->align = NULL;\n    }\n    d->align = state_align_search_init(", kind="benign")
M("C18", "cmn: text rebuilt only in a debug message (seed C18-7 core)", "src/cmn.c", "    E_INFO(\"CMN: %s\\n\", cmn_update_repr(cmn));", "    E_DEBUG(\"CMN: %s\\n\", cmn_update_repr(cmn));", "REPR")
M("C07", "cmn_live: mean re-estimated after every block (seed C07-7 core)", "src/cmn_live.c", "    if (cmn->nframe > CMN_WIN_HWM)\n        cmn_live_shiftwin(cmn);", "    cmn_live_shiftwin(cmn);", "ORDER.cmn-after-limit")
M("C07", "decoder_alignment: aligner runs over everything buffered (seed C07-8 core)", "src/decoder.c", "    while (d->acmod->output_frame < output_frame) {\n        if (search_module_step(d->align", "    while (d->acmod->n_feat_frame > 0) {\n        if (search_module_step(d->align", "PAIR.rewind-restore")
M("C13", "fsg reader: vocabulary table folds case (seed C13-7 core)", "src/fsg_model.c", "vocab = hash_table_new(32, FALSE);", "vocab = hash_table_new(32, HASH_CASE_NO);", "TABLE.W2-transition-line")
M("C03", "fsg_search_hyp: kept string returned once final (seed C03-7 core)", "src/fsg_search.c", "    bp = bpidx;\n    len = 0;\n    while (bp > 0) {", "    if (fsgs->final && search->hyp_str != NULL)\n        return search->hyp_str;\n    bp = bpidx;\n    len = 0;\n    while (bp > 0) {", "PROV.S8-no-stale-result")
M("C17", "mdef: senone sequence size tested through a 32-bit product (seed C17-8 core)", "src/bin_mdef.c", "    if (*sseq_size < 0 || m->n_emit_state > *sseq_size / m->n_sseq) {", "    if (*sseq_size < 0 || m->n_emit_state * m->n_sseq > *sseq_size) {", "TAINT.wide-product")

M("C02", "nearest: word positions tried in rotation (seed C02-8 core)", "src/bin_mdef.c", "    for (tmppos = 0; tmppos < N_WORD_POSN; tmppos++) {\n        if (tmppos != pos) {\n            p = bin_mdef_phone_id(m, b, l, r, tmppos);", "    for (tmppos = 0; tmppos < N_WORD_POSN; tmppos++) {\n        if (tmppos != pos) {\n            p = bin_mdef_phone_id(m, b, l, r, (word_posn_t)((pos + tmppos) % N_WORD_POSN));", "ORDER.backoff")
M("C01", "lextree: root table shared by all states (seed C01-8 core)", "src/fsg_lextree.c", "    fsg_glist_linklist_t *glist = NULL;\n\n    root = NULL;", "    static fsg_glist_linklist_t *glist;\n\n    root = NULL;", "SCOPE.O15-roots-per-state")
M("C09", "vector_grow_one: size clamped instead of refused (seed C09-7 core)", "src/ps_alignment.c", "    if (newsize > 0xffff)\n        return NULL;", "    if (newsize > 0xffff)\n        newsize = 0xffff;", "WIDTH.vector")
M("C09", "benign: vectors grow geometrically, still refusing at the limit", "src/ps_alignment.c", "    newsize += VECTOR_GROW;\n    if (newsize > 0xffff)\n        return NULL;", "    newsize = *n_alloc ? 2 * *n_alloc : VECTOR_GROW;\n    if (newsize > 0xffff)\n        return NULL;", kind="benign")
