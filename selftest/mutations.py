"""Scratch-copy mutations used to test the checks both ways."""
MUTATIONS = []

def M(prop, name, file, old, new, rule=None, kind="break"):
    MUTATIONS.append({"prop": prop, "name": name, "file": file, "old": old, "new": new, "rule": rule, "kind": kind})

EP = "src/ps_endpointer.c"
# ---- C15 ----------------------------------------------------------------------
M("C15", "ep: revert index fix", EP, """        do {
            count += ep->is_speech[i++];
            i = i % ep->maxlen;
        } while (i != end);""", """        count = ep->is_speech[i++];
        while (i != end) {
            count += ep->is_speech[i++];
            i = i % ep->maxlen;
        }""", "RING.index")
M("C15", "ep: push drops modulo", EP, "int i = (ep->pos + ep->n) % ep->maxlen;", "int i = (ep->pos + ep->n);", "RING.index")
M("C15", "ep: pop forgets clock", EP, """        return NULL;
    ep->qstart_time += ep->frame_length;
    if (out_is_speech)""", """        return NULL;
    if (out_is_speech)""", "PAIR.clock")
M("C15", "ep: push full forgets clock", EP, """        ep->qstart_time += ep->frame_length;
        ep->pos = (ep->pos + 1) % ep->maxlen;
    } else""", """        ep->pos = (ep->pos + 1) % ep->maxlen;
    } else""", "PAIR.clock")
M("C15", "ep: start threshold non-strict", EP, "if (speech_count > ep->start_frames) {", "if (speech_count >= ep->start_frames) {", "CENSUS.in_speech")
M("C15", "ep: end threshold uses start_frames", EP, "if (speech_count < ep->end_frames) {", "if (speech_count < ep->start_frames) {", "CENSUS.in_speech")
M("C15", "ep: speech_start from timestamp", EP, "ep->speech_start = ep->qstart_time;", "ep->speech_start = ep->timestamp;", "CENSUS.in_speech")
M("C15", "ep: pop reads after advance", EP, """    pcm = ep->buf + (ep->pos * ep->frame_size);
    ep->pos = (ep->pos + 1) % ep->maxlen;""", """    ep->pos = (ep->pos + 1) % ep->maxlen;
    pcm = ep->buf + (ep->pos * ep->frame_size);""", "PAIR.pop")
M("C15", "ep: linearize flags moved short", EP, """    memmove(ep->is_speech, ep->is_speech + ep->pos,
            sizeof(*ep->is_speech) * (ep->maxlen - ep->pos));""", """    memmove(ep->is_speech, ep->is_speech + ep->pos,
            sizeof(*ep->is_speech) * (ep->maxlen - ep->pos - 1));""", "TWIN.linearize")
M("C15", "ep: timestamp only when speech", EP, """    ep->timestamp += ep->frame_length;
    speech_count""", """    if (is_speech) ep->timestamp += ep->frame_length;
    speech_count""", "PAIR.timestamp")
M("C15", "ep: end_stream counts non-speech", EP, """        if (is_speech) {
            if (out_nsamp)
                *out_nsamp += ep->frame_size;""", """        if (1) {
            if (out_nsamp)
                *out_nsamp += ep->frame_size;""", "PAIR.end_stream")
M("C15", "ep: trailing copy one frame late", EP, "memcpy(ep->buf + ep->pos * ep->frame_size,\n                   frame", "memcpy(ep->buf + (ep->pos + 1) * ep->frame_size,\n                   frame", "RING.region")
M("C15", "ep: count from pos+1", EP, "int i = ep->pos, end = (ep->pos + ep->n) % ep->maxlen;", "int i = (ep->pos + 1) % ep->maxlen, end = (ep->pos + ep->n) % ep->maxlen;", "PROV.count-range")
# benign
M("C15", "ep benign: temp for tail index", EP, "    int i = (ep->pos + ep->n) % ep->maxlen;\n    int16 *dest", "    int tail = ep->pos + ep->n;\n    int i = tail % ep->maxlen;\n    int16 *dest", kind="benign")
M("C15", "ep benign: commute", EP, "ep->pos = (ep->pos + 1) % ep->maxlen;\n    ep->n--;", "ep->n--;\n    ep->pos = (1 + ep->pos) % ep->maxlen;", kind="benign")
M("C15", "ep benign: pop clock after advance", EP, """    ep->qstart_time += ep->frame_length;
    if (out_is_speech)
        *out_is_speech = ep->is_speech[ep->pos];
    pcm = ep->buf + (ep->pos * ep->frame_size);
    ep->pos = (ep->pos + 1) % ep->maxlen;""", """    if (out_is_speech)
        *out_is_speech = ep->is_speech[ep->pos];
    pcm = ep->buf + (ep->pos * ep->frame_size);
    ep->pos = (ep->pos + 1) % ep->maxlen;
    ep->qstart_time += ep->frame_length;""", kind="benign")
