"""Behaviour-preserving edits (renames of locals, parameters and fields, reordered
independent statements, equivalent condition forms) applied to a scratch copy:
no check may answer 1 (VIOLATION); 0 is expected, 2 (anchor lost) is tolerated
and listed.  Not a property check; usage: python3 selftest/benign_edits.py"""
import os, re, shutil, subprocess, sys, tempfile
V="/verif"
CASES = [
 ("fsg_search.c find_exit: rename besthist", "src/fsg_search.c", [(r"\bbesthist\b", "chosen")], ["C01","C02","C03"]),
 ("decoder.c set_align_text: rename nwords", "src/decoder.c", [(r"\bnwords\b", "n_w")], ["C09","C10","C04"]),
 ("cmn.c: rename nframe local use? (field stays) swap memsets", "src/cmn.c", [(r"    memset\(cmn->cmn_mean, 0, sizeof\(cmn->cmn_mean\[0\]\) \* cmn->veclen\);\n    memset\(cmn->sum, 0, sizeof\(cmn->sum\[0\]\) \* cmn->veclen\);", "    memset(cmn->sum, 0, sizeof(cmn->sum[0]) * cmn->veclen);\n    memset(cmn->cmn_mean, 0, sizeof(cmn->cmn_mean[0]) * cmn->veclen);")], ["C08","C18"]),
 ("ptm_mgau.c read_sendump: rename n_clust", "src/ptm_mgau.c", [(r"\bn_clust\b", "nclusters")], ["C17"]),
 ("bin_mdef.c: rename val", "src/bin_mdef.c", [(r"\bval\b", "word32")], ["C17"]),
 ("ps_endpointer.c: i++ -> ++i in speech count", "src/ps_endpointer.c", [(r"count \+= ep->is_speech\[i\+\+\];", "count += ep->is_speech[i]; ++i;")], ["C15"]),
 ("hash_table.c: a+1 -> 1+a style", "src/hash_table.c", [(r"h->inuse\+\+", "h->inuse += 1")], ["C20"]),
 ("logmath.c: rename d", "src/logmath.c", [(r"\bint d, r;", "int dd, r;"), (r"\bd = ", "dd = "), (r"\(d <", "(dd <"), (r"\[d\]", "[dd]"), (r"d >=", "dd >=")], ["C19"]),
 ("fsg_model.c reader: rename tprob", "src/fsg_model.c", [(r"\btprob\b", "logp_lw")], ["C13","C10"]),
 ("jsgf.c expand_rhs: rename lastnode", "src/jsgf.c", [(r"\blastnode\b", "tail")], ["C05"]),
 ("acmod.c: rename inptr", "src/acmod.c", [(r"\binptr\b", "wpos")], ["C07","C03"]),
 ("field rename: jsgf_s.rulestack -> expanding", "*", [(r"\brulestack\b", "expanding")], ["C05","C10"]),
 ("field rename: cmn_t.nframe -> n_acc", "*", [(r"->nframe\b", "->n_acc"), (r"int32 nframe;", "int32 n_acc;")], ["C18","C08"]),
 ("decoder.c: !x -> x == NULL", "src/decoder.c", [(r"if \(!jsgf\)", "if (jsgf == NULL)"), (r"if \(!fsg\)", "if (fsg == NULL)")], ["C05","C09","C10"]),
 ("cmn_live.c: guard as nframe < 1", "src/cmn_live.c", [(r"if \(cmn->nframe <= 0\)", "if (cmn->nframe < 1)")], ["C18"]),
 ("tmat.c: independent statements swapped", "src/tmat.c", [(r"    t->n_tmat = n_tmat;\n", ""), (r"    t->n_state = n_src;\n", "    t->n_state = n_src;\n    t->n_tmat = n_tmat;\n")], ["C17"]),
 ("ps_endpointer.c: temp in ring advance", "src/ps_endpointer.c", [(r"        ep->pos = \(ep->pos \+ 1\) % ep->maxlen;\n    \} else", "        { int np = ep->pos + 1; ep->pos = np % ep->maxlen; }\n    } else")], ["C15"]),
 ("hash_table.c: ++ as x = x + 1", "src/hash_table.c", [(r"\+\+h->inuse;", "h->inuse = h->inuse + 1;"), (r"--h->inuse;", "h->inuse = h->inuse - 1;")], ["C20"]),
 ("decoder.c: += as x = x + k in result_json", "src/decoder.c", [(r"    maxlen \+= 6; /\* \"w\":,\[ \*/", "    maxlen = maxlen + 6;")], ["C14","C09"]),
 ("ptm_mgau.c: clamp as ternary", "src/ptm_mgau.c", [(r"                if \(s->f->topn\[i\]\[j\]\[k\]\.score > MAX_NEG_ASCR\)\n                    s->f->topn\[i\]\[j\]\[k\]\.score = MAX_NEG_ASCR;", "                s->f->topn[i][j][k].score = (s->f->topn[i][j][k].score > MAX_NEG_ASCR) ? MAX_NEG_ASCR : s->f->topn[i][j][k].score;")], ["C18"]),
 ("logmath.c: table bound with the cast on the other side", "src/logmath.c", [(r"if \(\(size_t\)d >= t->table_size\)", "if (d >= (int)t->table_size)")], ["C19"]),
 ("cmn.c: zero-count guard as early exit of the loop", "src/cmn.c", [(r"    if \(cmn->nframe > 0\) \{\n        for \(i = 0; i < cmn->veclen; i\+\+\) \{\n            cmn->cmn_mean\[i\] = cmn->sum\[i\] / cmn->nframe;\n        \}\n    \}", "    for (i = 0; cmn->nframe > 0 && i < cmn->veclen; i++) {\n        cmn->cmn_mean[i] = cmn->sum[i] / cmn->nframe;\n    }")], ["C18"]),
 ("tmat.c: dimension test split in two", "src/tmat.c", [(r"    if \(n_tmat <= 0 \|\| n_src <= 0\) \{", "    if (n_tmat <= 0)\n        goto error_out;\n    if (n_src <= 0) {")], ["C17"]),
 ("fsg_model.c: range test with the operands swapped", "src/fsg_model.c", [(r"if \(endptr == val \|\| i < 0 \|\| i >= fsg->n_state\) \{", "if (endptr == val || 0 > i || fsg->n_state <= i) {")], ["C10","C13"]),
 ("fsg_search.c: temp introduced in find_exit", "src/fsg_search.c", [(r"    if \(out_score\)\n        \*out_score = bestscore;", "    if (out_score) {\n        int32 reported = bestscore;\n        *out_score = reported;\n    }")], ["C01","C02","C03"]),
]
scratch = tempfile.mkdtemp(prefix="ss_benign_")
try:
    for name, file, subs, props in CASES:
        base = os.path.join(scratch, "b")
        shutil.rmtree(base, ignore_errors=True)
        os.makedirs(base)
        for d in ("src", "include"):
            shutil.copytree(os.path.join("/repo", d), os.path.join(base, d))
        for f in ("CMakeLists.txt", "config.h.in"):
            shutil.copy(os.path.join("/repo", f), base)
        files = [os.path.join(base, file)] if file != "*" else [os.path.join(r_, x) for d_ in ("src", "include") for r_, _ds, fs_ in os.walk(os.path.join(base, d_)) for x in fs_ if x.endswith((".c", ".h")) and "jsgf_scanner" not in x and "jsgf_parser" not in x]
        n = 0
        for p in files:
            s = open(p).read(); s0 = s
            for a, b in subs:
                s, k = re.subn(a, b, s); n += k
            if s != s0:
                open(p, "w").write(s)
        srcs = [x for x in files if x.endswith(".c")] if file != "*" else [os.path.join(base, "src", u) for u in os.listdir(os.path.join(base, "src")) if u.endswith(".c")]
        cc = subprocess.run(["clang", "-fsyntax-only", "-w", "-DHAVE_CONFIG_H", "-I" + base + "/src", "-I/verif/.cache/build", "-I" + base + "/include"] + srcs, capture_output=True, text=True)
        if cc.returncode != 0:
            print("%-60s DOES NOT COMPILE (%d subs) %s" % (name, n, cc.stderr[:100])); continue
        res = []
        for pr in props:
            r = subprocess.run([os.path.join(V, "check"), pr], capture_output=True, text=True, env=dict(os.environ, SS_REPO=base, SS_EVIDENCE=os.path.join(scratch, "_ev")), cwd=V)
            res.append("%s=%d" % (pr, r.returncode))
            if r.returncode == 1:
                res.append("[" + "; ".join(l.strip()[:90] for l in r.stdout.splitlines() if l.startswith("  at "))[:300] + "]")
        print("%-60s subs=%d %s" % (name, n, " ".join(res)))
finally:
    shutil.rmtree(scratch, ignore_errors=True)
