#!/usr/bin/env python3
"""Mutation self-test of the checks (not a property check; DESIGN.md section 7).

Each entry of selftest/mutations.py edits one place of a scratch copy of /repo
(outside /repo and /verif, removed afterwards) and states what the named check
must do: kind 'break' -> exit 1 naming the rule; kind 'benign' -> exit 0.
usage: selftest/run.py [PROP ...] [-k substring]
"""
import os, shutil, subprocess, sys, tempfile
V = os.path.dirname(os.path.dirname(os.path.abspath(__file__)))
sys.path.insert(0, V)
from selftest.mutations import MUTATIONS

def main():
    args = [a for a in sys.argv[1:] if not a.startswith("-")]
    sub = None
    if "-k" in sys.argv:
        sub = sys.argv[sys.argv.index("-k") + 1]
        args = [a for a in args if a != sub]
    scratch = tempfile.mkdtemp(prefix="ss_mut_")
    fails = 0
    n = 0
    try:
        base = os.path.join(scratch, "base")
        os.makedirs(base)
        for d in ("src", "include"):
            shutil.copytree(os.path.join("/repo", d), os.path.join(base, d))
        for f in ("CMakeLists.txt", "config.h.in"):
            shutil.copy(os.path.join("/repo", f), base)
        for m in MUTATIONS:
            if args and m["prop"] not in args:
                continue
            if sub and sub not in m["name"]:
                continue
            n += 1
            path = os.path.join(base, m["file"])
            orig = open(path).read()
            if orig.count(m["old"]) != 1 and not (m.get("first") and orig.count(m["old"]) > 1):
                print("SKIP  %-40s pattern occurs %d times in %s" % (m["name"], orig.count(m["old"]), m["file"]))
                fails += 1
                continue
            open(path, "w").write(orig.replace(m["old"], m["new"], 1))
            try:
                # must still compile
                cc = subprocess.run(["clang", "-fsyntax-only", "-w", "-DHAVE_CONFIG_H", "-I" + base + "/src", "-I/verif/.cache/build", "-I" + base + "/include", path], capture_output=True, text=True)
                if cc.returncode != 0 and path.endswith(".c"):
                    print("SKIP  %-40s mutant does not compile: %s" % (m["name"], cc.stderr[:200]))
                    fails += 1
                    continue
                env = dict(os.environ, SS_REPO=base, SS_EVIDENCE=os.path.join(scratch, "_ev"))
                r = subprocess.run([os.path.join(V, "check"), m["prop"]], capture_output=True, text=True, env=env, cwd=V)
                if m["kind"] == "break":
                    ok = r.returncode == 1 and ("rule " + m["rule"]) in r.stdout
                else:
                    ok = r.returncode == 0
                print("%s  %-6s %-40s rc=%d %s" % ("ok  " if ok else "FAIL", m["kind"], m["name"], r.returncode, "" if ok else "(expected %s)" % (m.get("rule") or "silence")))
                if not ok:
                    fails += 1
                    print("\n".join(["      " + l for l in r.stdout.splitlines() if l.startswith(("VIOLATION", "  rule", "  at", "ANALYSIS"))][:12]))
            finally:
                open(path, "w").write(orig)
    finally:
        shutil.rmtree(scratch, ignore_errors=True)
    # evidence files were rewritten by the scratch runs: restore from the real tree
    for p in sorted(set(m["prop"] for m in MUTATIONS if not args or m["prop"] in args)):
        subprocess.run([os.path.join(V, "check"), p], capture_output=True, cwd=V)
    print("%d mutations, %d failures" % (n, fails))
    return 1 if fails else 0

if __name__ == "__main__":
    sys.exit(main())
